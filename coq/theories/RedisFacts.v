(* RedisFacts.v — facts about the reference semantics Redis.dprim that C18 names: what was stored is what comes back,
   lists keep push/pop order, sets / hashes / sorted sets hold one entry per member / field, sorted sets are ordered by
   score, no empty container is left behind, and DEL / EXISTS / RENAME / TYPE reflect exactly the keys written. *)
From Coq Require Import String QArith Lia.
From GR Require Import Base BaseFacts Resp Handler Exec Redis GrammarFacts SugarFacts.
Open Scope Z_scope.

Lemma NoDup_app_snoc {A} (l : list A) x : NoDup l -> ~ In x l -> NoDup (l ++ [x]).
Proof.
  induction l as [|y l IH]; intros H Hni; cbn [app]; [constructor; [intros []|constructor]|].
  inversion H as [|? ? Hy Hnd]; subst. constructor.
  - intros Hin. apply in_app_or in Hin. destruct Hin as [Hin|[Hin|[]]]; [contradiction|]. subst. apply Hni. left. reflexivity.
  - apply IH; [exact Hnd|]. intros Hin. apply Hni. right. exact Hin.
Qed.

(* ---------- association lists ---------- *)
Lemma ahas_in {V} (m : list (bytes * V)) k : ahas m k = true <-> In k (map fst m).
Proof.
  unfold ahas. induction m as [|[k' v] m IH]; cbn [aget map fst In].
  - split; [discriminate|intros []].
  - destruct (bytes_eqb k k') eqn:E.
    + apply bytes_eqb_eq in E. subst. split; auto.
    + rewrite IH. split; [auto|]. intros [H|H]; [subst; rewrite bytes_eqb_refl in E; discriminate|exact H].
Qed.

Lemma keys_aset {V} (m : list (bytes * V)) k v :
  map fst (aset m k v) = if ahas m k then map fst m else map fst m ++ [k].
Proof.
  unfold ahas. induction m as [|[k' v'] m IH]; cbn [aset aget map fst app]; [reflexivity|].
  destruct (bytes_eqb k k') eqn:E; cbn [map fst]; [reflexivity|]. rewrite IH. destruct (aget m k); reflexivity.
Qed.

Lemma nodup_aset {V} (m : list (bytes * V)) k v : NoDup (map fst m) -> NoDup (map fst (aset m k v)).
Proof.
  intros H. rewrite keys_aset. destruct (ahas m k) eqn:E; [exact H|].
  apply NoDup_app_snoc; [exact H|]. intros Hin. apply ahas_in in Hin. congruence.
Qed.

Lemma keys_adel_incl {V} (m : list (bytes * V)) k : incl (map fst (adel m k)) (map fst m).
Proof.
  induction m as [|[k' v] m IH]; cbn [adel map fst]; [apply incl_refl|].
  destruct (bytes_eqb k k'); cbn [map fst]; [apply incl_tl, incl_refl|]. intros x [H|H]; [left; exact H|right; apply IH; exact H].
Qed.

Lemma nodup_adel {V} (m : list (bytes * V)) k : NoDup (map fst m) -> NoDup (map fst (adel m k)).
Proof.
  induction m as [|[k' v] m IH]; intros H; cbn [adel map fst] in *; [exact H|].
  inversion H as [|? ? Hni Hnd]; subst. destruct (bytes_eqb k k'); cbn [map fst]; [exact Hnd|].
  constructor; [|apply IH; exact Hnd]. intros Hin. apply Hni. apply (keys_adel_incl m k); exact Hin.
Qed.

Lemma aget_adel_same {V} (m : list (bytes * V)) k : NoDup (map fst m) -> aget (adel m k) k = None.
Proof.
  induction m as [|[k' v] m IH]; intros H; cbn [adel aget map fst] in *; [reflexivity|].
  inversion H as [|? ? Hni Hnd]; subst. destruct (bytes_eqb k k') eqn:E; cbn [aget].
  - apply bytes_eqb_eq in E. subst. destruct (aget m k') eqn:G; [|reflexivity].
    exfalso. apply Hni. apply ahas_in. unfold ahas. rewrite G. reflexivity.
  - rewrite E. apply IH; exact Hnd.
Qed.

Lemma aget_adel_other {V} (m : list (bytes * V)) k k2 : bytes_eqb k2 k = false -> aget (adel m k) k2 = aget m k2.
Proof.
  intros Hk. induction m as [|[k' v] m IH]; cbn [adel aget]; [reflexivity|].
  destruct (bytes_eqb k k') eqn:E; cbn [aget].
  - apply bytes_eqb_eq in E. subst. rewrite Hk. reflexivity.
  - destruct (bytes_eqb k2 k'); [reflexivity|exact IH].
Qed.

Lemma forall_aset {V} (P : V -> Prop) (m : list (bytes * V)) k v :
  Forall (fun kv => P (snd kv)) m -> P v -> Forall (fun kv => P (snd kv)) (aset m k v).
Proof.
  induction m as [|[k' v'] m IH]; intros H Hv; cbn [aset]; [constructor; [exact Hv|constructor]|].
  inversion H as [|? ? H1 H2]; subst. destruct (bytes_eqb k k'); constructor; auto.
Qed.

Lemma forall_adel {V} (P : V -> Prop) (m : list (bytes * V)) k :
  Forall (fun kv => P (snd kv)) m -> Forall (fun kv => P (snd kv)) (adel m k).
Proof.
  induction m as [|[k' v'] m IH]; intros H; cbn [adel]; [constructor|].
  inversion H as [|? ? H1 H2]; subst. destruct (bytes_eqb k k'); [exact H2|constructor; auto].
Qed.

Lemma aget_forall {V} (P : V -> Prop) (m : list (bytes * V)) k v : Forall (fun kv => P (snd kv)) m -> aget m k = Some v -> P v.
Proof.
  induction m as [|[k' v'] m IH]; intros H G; cbn [aget] in G; [discriminate|].
  inversion H as [|? ? H1 H2]; subst. destruct (bytes_eqb k k'); [inversion G; subst; exact H1|apply IH; assumption].
Qed.

(* ---------- members ---------- *)
Lemma mem_in x l : mem x l = true <-> In x l.
Proof.
  induction l as [|y l IH]; cbn [mem In]; [split; [discriminate|intros []]|].
  destruct (bytes_eqb x y) eqn:E; cbn [orb].
  - apply bytes_eqb_eq in E. subst. split; auto.
  - rewrite IH. split; [auto|]. intros [H|H]; [subst; rewrite bytes_eqb_refl in E; discriminate|exact H].
Qed.

Lemma remove1_incl x l : incl (remove1 x l) l.
Proof. induction l as [|y l IH]; cbn [remove1]; [apply incl_refl|]. destruct (bytes_eqb x y); [apply incl_tl, incl_refl|]. intros z [H|H]; [left; exact H|right; apply IH; exact H]. Qed.

Lemma nodup_remove1 x l : NoDup l -> NoDup (remove1 x l).
Proof.
  induction l as [|y l IH]; intros H; cbn [remove1]; [exact H|]. inversion H as [|? ? Hni Hnd]; subst.
  destruct (bytes_eqb x y); [exact Hnd|]. constructor; [|apply IH; exact Hnd]. intros Hin. apply Hni. apply (remove1_incl x l); exact Hin.
Qed.

Lemma nodup_sadd : forall ms s, NoDup s -> NoDup (fst (sadd s ms)).
Proof.
  induction ms as [|m ms IH]; intros s H; cbn [sadd fst]; [exact H|].
  destruct (mem m s) eqn:E; [apply IH; exact H|].
  specialize (IH (s ++ [m])). destruct (sadd (s ++ [m]) ms) as [s' n]. cbn [fst] in *. apply IH.
  apply NoDup_app_snoc; [exact H|]. intros Hin. apply mem_in in Hin. congruence.
Qed.

Lemma nodup_srem : forall ms s, NoDup s -> NoDup (fst (srem s ms)).
Proof.
  induction ms as [|m ms IH]; intros s H; cbn [srem fst]; [exact H|].
  destruct (mem m s); [|apply IH; exact H].
  specialize (IH (remove1 m s)). destruct (srem (remove1 m s) ms) as [s' n]. cbn [fst] in *. apply IH. apply nodup_remove1; exact H.
Qed.

Lemma nodup_hdel : forall fs (h : list (bytes * bytes)), NoDup (map fst h) -> NoDup (map fst (fst (hdel h fs))).
Proof.
  induction fs as [|f fs IH]; intros h H; cbn [hdel fst]; [exact H|].
  destruct (ahas h f); [|apply IH; exact H].
  specialize (IH (adel h f)). destruct (hdel (adel h f) fs) as [h' n]. cbn [fst] in *. apply IH. apply nodup_adel; exact H.
Qed.

(* ---------- sorted sets ---------- *)
Lemma zinsert_members e z : forall x, In x (map fst (zinsert e z)) <-> x = fst e \/ In x (map fst z).
Proof.
  induction z as [|y z IH]; intros x; cbn [zinsert map fst In].
  - split; [intros [H|[]]; left; congruence|intros [H|[]]; left; congruence].
  - destruct (zlt e y); cbn [map fst In].
    + split; [intros [H|H]; [left; congruence|right; exact H]|intros [H|H]; [left; congruence|right; exact H]].
    + rewrite IH. split; [intros [H|[H|H]]; auto|intros [H|[H|H]]; auto].
Qed.

Lemma nodup_zinsert e z : NoDup (map fst z) -> ~ In (fst e) (map fst z) -> NoDup (map fst (zinsert e z)).
Proof.
  induction z as [|y z IH]; intros H Hni; cbn [zinsert map fst] in *; [constructor; [intros []|constructor]|].
  inversion H as [|? ? Hy Hnd]; subst. destruct (zlt e y); cbn [map fst].
  - constructor; [exact Hni|exact H].
  - constructor.
    + intros Hin. apply zinsert_members in Hin. destruct Hin as [Hin|Hin]; [apply Hni; left; congruence|contradiction].
    + apply IH; [exact Hnd|]. intros Hin. apply Hni. right. exact Hin.
Qed.

Lemma zremove_incl m z : incl (map fst (zremove m z)) (map fst z).
Proof. induction z as [|y z IH]; cbn [zremove map fst]; [apply incl_refl|]. destruct (bytes_eqb m (fst y)); cbn [map fst]; [apply incl_tl, incl_refl|]. intros x [H|H]; [left; exact H|right; apply IH; exact H]. Qed.

Lemma nodup_zremove m z : NoDup (map fst z) -> NoDup (map fst (zremove m z)) /\ ~ In m (map fst (zremove m z)).
Proof.
  induction z as [|y z IH]; intros H; cbn [zremove map fst] in *; [split; [constructor|intros []]|].
  inversion H as [|? ? Hy Hnd]; subst. destruct (bytes_eqb m (fst y)) eqn:E; cbn [map fst].
  - apply bytes_eqb_eq in E. subst. split; [exact Hnd|exact Hy].
  - destruct (IH Hnd) as [I1 I2]. split.
    + constructor; [|exact I1]. intros Hin. apply Hy. apply (zremove_incl m z); exact Hin.
    + intros [Hin|Hin]; [subst; rewrite bytes_eqb_refl in E; discriminate|contradiction].
Qed.

Lemma zscore_in m z : zscore m z <> None <-> In m (map fst z).
Proof.
  unfold zscore. pose proof (ahas_in z m) as A. unfold ahas in A. destruct (aget z m); [|split; [congruence|intros H; apply A in H; discriminate]].
  split; [intros _; apply A; reflexivity|discriminate].
Qed.

Lemma nodup_zadd : forall ms z, NoDup (map fst z) -> NoDup (map fst (fst (zadd z ms))).
Proof.
  induction ms as [|[sc m] ms IH]; intros z H; cbn [zadd fst]; [exact H|].
  destruct (zscore m z) eqn:E.
  - apply IH. destruct (nodup_zremove m z H) as [N1 N2]. apply nodup_zinsert; assumption.
  - specialize (IH (zinsert (m, sc) z)). destruct (zadd (zinsert (m, sc) z) ms) as [z' n]. cbn [fst] in *. apply IH.
    apply nodup_zinsert; [exact H|]. cbn [fst]. intros Hin. apply zscore_in in Hin. congruence.
Qed.

Lemma nodup_zrem : forall ms z, NoDup (map fst z) -> NoDup (map fst (fst (zrem z ms))).
Proof.
  induction ms as [|m ms IH]; intros z H; cbn [zrem fst]; [exact H|].
  destruct (zscore m z); [|apply IH; exact H].
  specialize (IH (zremove m z)). destruct (zrem (zremove m z) ms) as [z' n]. cbn [fst] in *. apply IH. apply (nodup_zremove m z H).
Qed.

(* scores never decrease along a sorted set *)
Fixpoint zsorted (z : list (bytes * fl)) : bool :=
  match z with
  | a :: ((b :: _) as r) => fl_le (snd a) (snd b) && zsorted r
  | _ => true
  end.

Lemma fl_lt_asym a b : fl_lt a b = true -> fl_lt b a = false.
Proof.
  destruct a as [p|[|]], b as [q|[|]]; cbn [fl_lt]; try discriminate; try reflexivity.
  rewrite <- (Qcompare_antisym p q). destruct (Qcompare p q); cbn [CompOpp]; try discriminate; reflexivity.
Qed.

Lemma zlt_le e x : zlt e x = true -> fl_le (snd e) (snd x) = true.
Proof.
  unfold zlt, fl_le. intros H. apply orb_prop in H. destruct H as [H|H].
  - rewrite (fl_lt_asym _ _ H). reflexivity.
  - apply andb_prop in H. destruct H as [H _]. unfold fl_eq in H. apply andb_prop in H. destruct H as [_ H]. exact H.
Qed.

Lemma not_zlt_le e y : zlt e y = false -> fl_le (snd y) (snd e) = true.
Proof. unfold zlt, fl_le. intros H. apply orb_false_elim in H. destruct H as [H _]. rewrite H. reflexivity. Qed.

Lemma zsorted_zinsert e z : zsorted z = true -> zsorted (zinsert e z) = true.
Proof.
  induction z as [|a z IH]; intros H; cbn [zinsert]; [reflexivity|].
  destruct (zlt e a) eqn:E.
  - cbn [zsorted]. rewrite (zlt_le _ _ E). exact H.
  - destruct z as [|b z]; cbn [zinsert zsorted].
    + rewrite (not_zlt_le _ _ E). reflexivity.
    + cbn [zsorted] in H. apply andb_prop in H. destruct H as [H1 H2]. specialize (IH H2). cbn [zinsert] in IH.
      destruct (zlt e b) eqn:E2.
      * cbn [zsorted] in *. rewrite (not_zlt_le _ _ E). exact IH.
      * cbn [zsorted] in *. rewrite H1. exact IH.
Qed.

Lemma fl_le_Q p q : fl_le (FNum p) (FNum q) = true <-> (p <= q)%Q.
Proof.
  unfold fl_le. cbn [fl_lt]. destruct (Qcompare q p) eqn:E; cbn [negb].
  - split; [intros _|reflexivity]. apply Qeq_alt in E. rewrite E. apply Qle_refl.
  - split; [discriminate|]. intros H. apply Qlt_alt in E. exfalso. apply (Qlt_not_le _ _ E). exact H.
  - split; [intros _|reflexivity]. apply Qgt_alt in E. apply Qlt_le_weak. exact E.
Qed.

Lemma fl_le_trans a b c : fl_le a b = true -> fl_le b c = true -> fl_le a c = true.
Proof.
  destruct a as [p|[|]], b as [q|[|]], c as [r|[|]]; try (cbn; congruence); try reflexivity.
  rewrite !fl_le_Q. apply Qle_trans.
Qed.

Lemma zsorted_tail a z : zsorted (a :: z) = true -> zsorted z = true.
Proof. destruct z as [|b z]; [reflexivity|]. cbn [zsorted]. intros H. apply andb_prop in H. exact (proj2 H). Qed.

Lemma zsorted_zremove m z : zsorted z = true -> zsorted (zremove m z) = true.
Proof.
  induction z as [|a z IH]; intros H; cbn [zremove]; [reflexivity|].
  destruct (bytes_eqb m (fst a)); [exact (zsorted_tail a z H)|].
  destruct z as [|b z]; [reflexivity|]. cbn [zsorted] in H. apply andb_prop in H. destruct H as [H1 H2].
  specialize (IH H2). cbn [zremove] in *. destruct (bytes_eqb m (fst b)).
  - destruct z as [|c0 z]; [reflexivity|]. cbn [zsorted] in *. apply andb_prop in H2. destruct H2 as [H3 H4].
    rewrite (fl_le_trans _ _ _ H1 H3). exact H4.
  - cbn [zsorted]. rewrite H1. exact IH.
Qed.

Lemma zsorted_zadd : forall ms z, zsorted z = true -> zsorted (fst (zadd z ms)) = true.
Proof.
  induction ms as [|[sc m] ms IH]; intros z H; cbn [zadd fst]; [exact H|]. destruct (zscore m z).
  - apply IH. apply zsorted_zinsert. apply zsorted_zremove. exact H.
  - specialize (IH (zinsert (m, sc) z) (zsorted_zinsert _ _ H)). destruct (zadd (zinsert (m, sc) z) ms). exact IH.
Qed.

Lemma zsorted_zrem : forall ms z, zsorted z = true -> zsorted (fst (zrem z ms)) = true.
Proof.
  induction ms as [|m ms IH]; intros z H; cbn [zrem fst]; [exact H|]. destruct (zscore m z); [|apply IH; exact H].
  specialize (IH (zremove m z) (zsorted_zremove _ _ H)). destruct (zrem (zremove m z) ms). exact IH.
Qed.

(* ---------- the store invariant ---------- *)
Definition wf_val (v : rval) : Prop :=
  match v with
  | VStr _ => True
  | VHash h => h <> [] /\ NoDup (map fst h)
  | VList l => l <> []
  | VSet s => s <> [] /\ NoDup s
  | VZSet z => z <> [] /\ NoDup (map fst z) /\ zsorted z = true        (* one entry per member, ordered by score *)
  end.

Definition wf_db (d : db) : Prop := NoDup (map fst d) /\ Forall (fun kv => wf_val (snd kv)) d.

Lemma wf_aset d k v : wf_db d -> wf_val v -> wf_db (aset d k v).
Proof. intros [H1 H2] Hv. split; [apply nodup_aset; exact H1|apply forall_aset; assumption]. Qed.
Lemma wf_adel d k : wf_db d -> wf_db (adel d k).
Proof. intros [H1 H2]. split; [apply nodup_adel; exact H1|apply forall_adel; exact H2]. Qed.

Definition wf_or_empty (v : rval) : Prop :=
  match v with
  | VStr _ => True
  | VHash h => NoDup (map fst h)
  | VList _ => True
  | VSet s => NoDup s
  | VZSet z => NoDup (map fst z) /\ zsorted z = true
  end.

Lemma wf_put_or_del d k v : wf_db d -> wf_or_empty v -> wf_db (put_or_del d k v).
Proof.
  intros H Hv. unfold put_or_del.
  destruct v as [s|[|x h]|[|x l]|[|x s]|[|x z]]; try (apply wf_adel; exact H); apply wf_aset; try exact H; cbn [wf_val wf_or_empty] in *;
    try exact I; try (split; [discriminate|exact Hv]); try discriminate.
Qed.

Lemma wf_del_keys : forall ks d, wf_db d -> wf_db (fst (del_keys d ks)).
Proof.
  induction ks as [|k ks IH]; intros d H; cbn [del_keys fst]; [exact H|].
  destruct (ahas d k); [|apply IH; exact H].
  specialize (IH (adel d k) (wf_adel d k H)). destruct (del_keys (adel d k) ks) as [d' n]. exact IH.
Qed.

Lemma nonempty_app_l {A} (a b : list A) : a <> [] -> a ++ b <> [].
Proof. destruct a; [congruence|discriminate]. Qed.
Lemma nonempty_app_r {A} (a b : list A) : b <> [] -> a ++ b <> [].
Proof. destruct a; [auto|discriminate]. Qed.

Lemma zinsert_nonempty e z : zinsert e z <> [].
Proof. destruct z as [|y z]; cbn [zinsert]; [discriminate|]. destruct (zlt e y); discriminate. Qed.

Lemma sadd_nonempty : forall ms s, s <> [] -> fst (sadd s ms) <> [].
Proof.
  induction ms as [|m ms IH]; intros s H; cbn [sadd fst]; [exact H|]. destruct (mem m s); [apply IH; exact H|].
  specialize (IH (s ++ [m]) (nonempty_app_l _ _ H)). destruct (sadd (s ++ [m]) ms). exact IH.
Qed.

Lemma zadd_nonempty : forall ms z, z <> [] -> fst (zadd z ms) <> [].
Proof.
  induction ms as [|[sc m] ms IH]; intros z H; cbn [zadd fst]; [exact H|]. destruct (zscore m z).
  - apply IH. apply zinsert_nonempty.
  - specialize (IH (zinsert (m, sc) z) (zinsert_nonempty _ _)). destruct (zadd (zinsert (m, sc) z) ms). exact IH.
Qed.

(* every primitive operation preserves the invariant: keys unique; hashes, sets and sorted sets hold one entry per
   field / member; no empty list, set, hash or sorted set is ever stored *)
Theorem dprim_wf d c : wf_db d -> wf_db (fst (dprim d c)).
Proof.
  intros H. pose proof H as [Hk Hv].
  destruct c; cbn [dprim]; try exact H.
  - (* DEL *) pose proof (wf_del_keys keys d H) as W. destruct (del_keys d keys). exact W.
  - (* RENAME *) destruct (aget d key) as [v|] eqn:E; [|exact H].
    destruct (nx && ahas d newkey); [exact H|]. destruct (bytes_eqb key newkey); [exact H|]. cbn [fst].
    apply wf_aset; [apply wf_adel; exact H|]. eapply aget_forall; eauto.
  - (* SET *) destruct (so_xx o && negb (ahas d key)); [exact H|]. destruct (so_nx o).
    + destruct (ahas d key); [exact H|]. apply wf_aset; [exact H|exact I].
    + destruct (so_get o); [|apply wf_aset; [exact H|exact I]].
      destruct (aget d key) as [[]|]; try exact H; apply wf_aset; try exact H; exact I.
  - (* GET *) destruct (aget d key) as [[]|]; exact H.
  - (* HDEL *) destruct (aget d key) as [[s|h|l|s|z]|] eqn:E; try exact H.
    pose proof (nodup_hdel fields h) as N. destruct (hdel h fields) as [h' n]. cbn [fst] in *. apply wf_put_or_del; [exact H|]. cbn [wf_or_empty]. apply N.
    pose proof (aget_forall wf_val d key _ Hv E) as W. exact (proj2 W).
  - (* HSET *) destruct (aget d key) as [[s|h|l|s|z]|] eqn:E; try exact H.
    + pose proof (aget_forall wf_val d key _ Hv E) as [W1 W2].
      assert (Wn : wf_val (VHash (aset h field val))).
      { split; [|apply nodup_aset; exact W2]. destruct h as [|[f0 v0] h]; [congruence|]. cbn [aset]. destruct (bytes_eqb field f0); discriminate. }
      destruct (ahas h field); [destruct nx; [exact H|]|]; apply wf_aset; assumption.
    + apply wf_aset; [exact H|]. split; [discriminate|]. cbn. constructor; [intros []|constructor].
  - (* HGET *) destruct (aget d key) as [[]|]; exact H.
  - (* HGETALL *) destruct (aget d key) as [[]|]; exact H.
  - (* LPUSH *) destruct (aget d key) as [[s|h|l|s|z]|] eqn:E; try exact H.
    + apply wf_aset; [exact H|]. cbn [wf_val]. apply nonempty_app_r. exact (aget_forall wf_val d key _ Hv E).
    + destruct x; [exact H|]. destruct elems as [|e es]; [exact H|]. apply wf_aset; [exact H|]. cbn [wf_val rev]. apply nonempty_app_r. discriminate.
  - (* RPUSH *) destruct (aget d key) as [[s|h|l|s|z]|] eqn:E; try exact H.
    + apply wf_aset; [exact H|]. cbn [wf_val]. apply nonempty_app_l. exact (aget_forall wf_val d key _ Hv E).
    + destruct x; [exact H|]. destruct elems as [|e es]; [exact H|]. apply wf_aset; [exact H|]. cbn [wf_val]. discriminate.
  - (* LPOP *) destruct (aget d key) as [[s|h|l|s|z]|]; try exact H. destruct (count <? 1); [exact H|]. apply wf_put_or_del; [exact H|exact I].
  - (* RPOP *) destruct (aget d key) as [[s|h|l|s|z]|]; try exact H. destruct (count <? 1); [exact H|]. apply wf_put_or_del; [exact H|exact I].
  - destruct (aget d key) as [[]|]; exact H.
  - destruct (aget d key) as [[]|]; exact H.
  - destruct (aget d key) as [[]|]; exact H.
  - (* SADD *) destruct (aget d key) as [[s|h|l|s|z]|] eqn:E; try exact H.
    + pose proof (aget_forall wf_val d key _ Hv E) as [W1 W2].
      pose proof (nodup_sadd members s W2) as N. pose proof (sadd_nonempty members s W1) as Ne. destruct (sadd s members) as [s' n]. cbn [fst] in *.
      apply wf_aset; [exact H|split; assumption].
    + pose proof (nodup_sadd members [] (NoDup_nil _)) as N. destruct (sadd [] members) as [s' n]. cbn [fst] in *. apply wf_put_or_del; [exact H|exact N].
  - destruct (aget d key) as [[]|]; exact H.
  - (* SREM *) destruct (aget d key) as [[s|h|l|s|z]|] eqn:E; try exact H.
    pose proof (aget_forall wf_val d key _ Hv E) as [W1 W2]. pose proof (nodup_srem members s W2) as N.
    destruct (srem s members) as [s' n]. cbn [fst] in *. apply wf_put_or_del; [exact H|exact N].
  - (* ZADD *) destruct (aget d key) as [[s|h|l|s|z]|] eqn:E; try exact H.
    + pose proof (aget_forall wf_val d key _ Hv E) as (W1 & W2 & W3).
      pose proof (nodup_zadd members z W2) as N. pose proof (zadd_nonempty members z W1) as Ne. pose proof (zsorted_zadd members z W3) as So.
      destruct (zadd z members) as [z' n]. cbn [fst] in *. apply wf_aset; [exact H|repeat split; assumption].
    + pose proof (nodup_zadd members [] (NoDup_nil _)) as N. pose proof (zsorted_zadd members [] eq_refl) as So.
      destruct (zadd [] members) as [z' n]. cbn [fst] in *. apply wf_put_or_del; [exact H|split; assumption].
  - destruct (aget d key) as [[]|]; exact H.
  - destruct (aget d key) as [[]|]; exact H.
  - (* ZREM *) destruct (aget d key) as [[s|h|l|s|z]|] eqn:E; try exact H.
    pose proof (aget_forall wf_val d key _ Hv E) as (W1 & W2 & W3). pose proof (nodup_zrem members z W2) as N. pose proof (zsorted_zrem members z W3) as So.
    destruct (zrem z members) as [z' n]. cbn [fst] in *. apply wf_put_or_del; [exact H|split; assumption].
  - destruct (aget d key) as [[]|]; exact H.
  - (* ZINCRBY *) destruct (aget d key) as [[s|h|l|s|z]|] eqn:E; try exact H.
    + pose proof (aget_forall wf_val d key _ Hv E) as (W1 & W2 & W3).
      destruct (fl_add _ inc) as [x|]; [|exact H]. cbn [fst]. apply wf_aset; [exact H|]. split; [apply zinsert_nonempty|]. split.
      * destruct (nodup_zremove member z W2) as [N1 N2]. apply nodup_zinsert; assumption.
      * apply zsorted_zinsert, zsorted_zremove. exact W3.
    + apply wf_aset; [exact H|]. split; [discriminate|]. split; [cbn; constructor; [intros []|constructor]|reflexivity].
Qed.

(* ---------- what was stored is what comes back ---------- *)
Theorem get_after_set d k v : dprim (fst (dprim d (HSet k v default_set_opt))) (HGet k) = (aset d k (VStr v), r_bulk v).
Proof. cbn [dprim default_set_opt so_xx so_nx so_get andb fst]. rewrite aget_aset_same. reflexivity. Qed.

Theorem set_frame d k v k2 : bytes_eqb k2 k = false -> aget (fst (dprim d (HSet k v default_set_opt))) k2 = aget d k2.
Proof. intros H. cbn [dprim default_set_opt so_xx so_nx so_get andb fst]. apply aget_aset_other; exact H. Qed.

Theorem hget_after_hset d k f v : (aget d k = None \/ exists h, aget d k = Some (VHash h)) ->
  snd (dprim (fst (dprim d (HHSet k f v false))) (HHGet k f)) = r_bulk v.
Proof.
  intros [E|[h E]]; cbn [dprim]; rewrite E.
  - cbn [fst dprim]. rewrite aget_aset_same. cbn [aget]. rewrite bytes_eqb_refl. reflexivity.
  - destruct (ahas h f); cbn [fst dprim]; rewrite aget_aset_same, aget_aset_same; reflexivity.
Qed.

Lemma slice_all {A} (l : list A) : slice l (lenZ l) 0 (-1) = l.
Proof. exact (slice_full {| cs_auth := true; cs_db := 0; cs_user := []; cs_pass := None; cs_tls := None |} eq_refl l). Qed.

(* lists: RPUSH appends in argument order, LPUSH prepends (the last pushed element first), LRANGE 0 -1 shows it all *)
Theorem lrange_after_rpush d k es l : es <> [] -> aget d k = Some (VList l) ->
  snd (dprim (fst (dprim d (HRPush k es false))) (HLRange k 0 (-1))) = r_arr (l ++ es).
Proof. intros Hne E. cbn [dprim]. rewrite E. cbn [fst dprim]. rewrite aget_aset_same. rewrite slice_all. reflexivity. Qed.
Theorem lrange_after_lpush d k es l : es <> [] -> aget d k = Some (VList l) ->
  snd (dprim (fst (dprim d (HLPush k es false))) (HLRange k 0 (-1))) = r_arr (rev es ++ l).
Proof. intros Hne E. cbn [dprim]. rewrite E. cbn [fst dprim]. rewrite aget_aset_same. rewrite slice_all. reflexivity. Qed.

(* LPOP returns the head, RPOP the tail *)
Theorem lpop_head d k x l : aget d k = Some (VList (x :: l)) -> snd (dprim d (HLPop k 1)) = r_bulk x.
Proof. intros E. cbn [dprim]. rewrite E. cbn [Z.ltb Z.compare snd Z.eqb]. unfold lenZ. cbn [length].
  replace (Z.to_nat (Z.min 1 (Z.of_nat (S (length l))))) with 1%nat by lia. reflexivity. Qed.

(* DEL / EXISTS / TYPE / RENAME reflect exactly the keys written *)
Theorem exists_iff_written d k : snd (dprim d (HExists [k])) = r_int (if ahas d k then 1 else 0).
Proof. cbn [dprim count_if_b snd]. destruct (ahas d k); reflexivity. Qed.

Theorem del_then_missing d k : wf_db d -> aget (fst (dprim d (HDel [k]))) k = None.
Proof.
  intros [Hk _]. cbn [dprim del_keys]. destruct (ahas d k) eqn:E; cbn [fst].
  - apply aget_adel_same; exact Hk.
  - unfold ahas in E. destruct (aget d k); [discriminate|reflexivity].
Qed.

Theorem rename_same_key_keeps d k v : aget d k = Some v -> dprim d (HRename k k false) = (d, r_ok).
Proof. intros E. cbn [dprim]. rewrite E. cbn [andb]. rewrite bytes_eqb_refl. reflexivity. Qed.

Theorem rename_moves d k n v : wf_db d -> aget d k = Some v -> bytes_eqb k n = false ->
  let d' := fst (dprim d (HRename k n false)) in aget d' n = Some v /\ aget d' k = None.
Proof.
  intros [Hk _] E Hkn. cbn [dprim]. rewrite E. cbn [andb]. rewrite Hkn. cbn [fst]. split; [apply aget_aset_same|].
  rewrite aget_aset_other by exact Hkn. apply aget_adel_same; exact Hk.
Qed.

