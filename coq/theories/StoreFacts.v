(* StoreFacts.v — the model of the bundled example store (Store.v) computes, operation by operation, what the Redis reference
   (Redis.v) computes, on every well-formed database and every call whose key is absent or holds the command's data type
   (the quantifier of C18: "each key is used with one data type"). *)
From Coq Require Import String QArith Lia.
From GR Require Import Base BaseFacts Resp Handler Exec Glob Redis GrammarFacts SugarFacts SugarMore RedisFacts Store.
Open Scope Z_scope.

(* lemmas proved inside SugarFacts' section take an authorized connection state; any will do *)
Definition c0 : cstate := {| cs_auth := true; cs_db := 0; cs_user := []; cs_pass := None; cs_tls := None |}.

(* ---------- zset.go ---------- *)
Lemma g_remove_member_spec m : forall z,
  g_remove_member m z = (zremove m z, match zscore m z with Some _ => true | None => false end).
Proof.
  induction z as [|x r IH]; [reflexivity|]. destruct x as [k s]. unfold zscore in *. cbn [g_remove_member zremove aget fst].
  rewrite (bytes_eqb_sym k m). destruct (bytes_eqb m k); [reflexivity|]. rewrite IH. reflexivity.
Qed.

Lemma g_insert_find e : forall z, g_insert_at (g_find_pos e z) e z = zinsert e z.
Proof.
  induction z as [|x r IH]; [reflexivity|]. cbn [g_find_pos zinsert]. destruct (zlt e x); [reflexivity|].
  unfold g_insert_at in *. cbn [firstn skipn app]. rewrite IH. reflexivity.
Qed.

Lemma zremove_absent m : forall z, zscore m z = None -> zremove m z = z.
Proof.
  unfold zscore. induction z as [|[k s] r IH]; [reflexivity|]. cbn [aget zremove fst]. destruct (bytes_eqb m k); [discriminate|].
  intros H. rewrite (IH H). reflexivity.
Qed.

Lemma g_zadd_spec : forall ms z a, g_zadd z ms a = (fst (zadd z ms), a + snd (zadd z ms)).
Proof.
  induction ms as [|[sc m] r IH]; intros z a; [cbn; f_equal; lia|].
  cbn [g_zadd zadd]. rewrite g_remove_member_spec, g_insert_find.
  destruct (zscore m z) eqn:E.
  - rewrite IH. reflexivity.
  - rewrite (zremove_absent m z E). rewrite IH. destruct (zadd (zinsert (m, sc) z) r) as [z' n]. cbn [fst snd]. f_equal. lia.
Qed.

Lemma g_zrem_spec : forall ms z a, g_zrem z ms a = (fst (zrem z ms), a + snd (zrem z ms)).
Proof.
  induction ms as [|m r IH]; intros z a; [cbn; f_equal; lia|].
  cbn [g_zrem zrem]. rewrite g_remove_member_spec.
  destruct (zscore m z) eqn:E.
  - rewrite IH. destruct (zrem (zremove m z) r) as [z' n]. cbn [fst snd]. f_equal. lia.
  - rewrite (zremove_absent m z E). rewrite IH. reflexivity.
Qed.

Lemma g_zscore_spec m : forall z, g_zscore m z = zscore m z.
Proof.
  unfold zscore. induction z as [|[k s] r IH]; [reflexivity|]. cbn [g_zscore aget fst snd]. rewrite (bytes_eqb_sym k m).
  destruct (bytes_eqb m k); [reflexivity|exact IH].
Qed.

Lemma g_limit_spec {A} off cnt (l : list A) : g_limit off cnt l = limit off cnt l.
Proof.
  unfold g_limit, limit, lenZ.
  destruct (Z.ltb_spec off 0) as [Ho|Ho]; cbn [orb].
  - rewrite Nat2Z.id, skipn_all, firstn_nil. reflexivity.
  - destruct (Z.ltb_spec (Z.of_nat (length l)) off) as [Hl|Hl].
    + rewrite Z.min_r by lia. rewrite Nat2Z.id, skipn_all, !firstn_nil. destruct (cnt <? 0); reflexivity.
    + rewrite Z.min_l by lia.
      assert (Lr : length (skipn (Z.to_nat off) l) = (length l - Z.to_nat off)%nat) by apply skipn_length.
      destruct (Z.ltb_spec cnt 0) as [Hc|Hc].
      * replace (0 <=? cnt) with false by (symmetry; apply Z.leb_gt; lia). cbn [andb].
        apply firstn_all2. rewrite Lr. lia.
      * replace (0 <=? cnt) with true by (symmetry; apply Z.leb_le; lia). cbn [andb].
        destruct (Z.ltb_spec cnt (Z.of_nat (length l) - off)) as [Hs|Hs].
        -- rewrite Z.min_l by lia. f_equal. lia.
        -- rewrite !firstn_all2; [reflexivity| |]; rewrite Lr; lia.
Qed.

Lemma g_loop_slice_norm {A} (l : list A) a b :
  let len := lenZ l in
  let start := if a <? 0 then len + a else a in
  let stop := if b <? 0 then len + b else b in
  let start := if start <? 0 then 0 else start in
  let stop := if len - 1 <? stop then len - 1 else stop in
  g_loop_slice l start stop = slice l len a b /\
  (match norm_range len a b with Some (lo, hi) => lo = start /\ hi = stop /\ 0 <= lo /\ lo <= hi /\ hi < len | None => stop < start end).
Proof.
  cbv zeta. unfold slice, norm_range, g_loop_slice.
  set (len := lenZ l). set (s1 := if a <? 0 then len + a else a). set (e1 := if b <? 0 then len + b else b).
  set (s2 := if s1 <? 0 then 0 else s1).
  assert (E : (if len - 1 <? e1 then len - 1 else e1) = (if len <=? e1 then len - 1 else e1)).
  { destruct (Z.ltb_spec (len - 1) e1), (Z.leb_spec len e1); lia. }
  rewrite E. set (e2 := if len <=? e1 then len - 1 else e1).
  assert (He2 : e2 <= len - 1) by (unfold e2; destruct (Z.leb_spec len e1); lia).
  assert (Hs2 : 0 <= s2) by (unfold s2; destruct (Z.ltb_spec s1 0); lia).
  destruct (Z.ltb_spec e2 s2) as [H|H]; cbn [orb].
  - replace (s2 <=? e2) with false by (symmetry; apply Z.leb_gt; lia). split; [reflexivity|lia].
  - replace (s2 <=? e2) with true by (symmetry; apply Z.leb_le; lia).
    replace (len <=? s2) with false by (symmetry; apply Z.leb_gt; lia). split; [reflexivity|lia].
Qed.

Lemma g_lrange_spec (l : list bytes) a b : g_lrange l a b = slice l (lenZ l) a b.
Proof. unfold g_lrange. apply (g_loop_slice_norm l a b). Qed.

Lemma g_zrange_spec (z : list (bytes * fl)) a b o :
  g_zrange z a b o = limit (zr_offset o) (zr_count o) (slice (if zr_rev o then rev z else z) (lenZ z) a b).
Proof.
  unfold g_zrange.
  destruct (g_loop_slice_norm z a b) as [E N]. cbv zeta in E, N.
  destruct (zr_rev o); cbv beta iota; rewrite g_limit_spec; f_equal; [|exact E].
  unfold slice in *. replace (lenZ (rev z)) with (lenZ z) in * by (unfold lenZ; rewrite rev_length; reflexivity).
  destruct (norm_range (lenZ z) a b) as [[lo hi]|].
  - destruct N as (<- & <- & H0 & H1 & H2). unfold g_loop_slice.
    match goal with |- context [?x <=? ?y] => replace (x <=? y) with true by (symmetry; apply Z.leb_le; lia) end.
    unfold lenZ in *. rewrite (rev_firstn_skipn c0 eq_refl) by lia. f_equal; [lia|]. f_equal. lia.
  - unfold g_loop_slice.
    match goal with |- context [?x <=? ?y] => replace (x <=? y) with false by (symmetry; apply Z.leb_gt; lia) end. reflexivity.
Qed.

Lemma g_zrangebyscore_spec z mn mx o : zr_rev o = false ->
  g_zrangebyscore z mn mx o = limit (zr_offset o) (zr_count o) (filter (fun e => in_score_range mn mx (zr_minex o) (zr_maxex o) (snd e)) z).
Proof.
  intros R. unfold g_zrangebyscore. rewrite R, g_limit_spec. f_equal. apply filter_ext. intros e.
  unfold in_score_range, fl_le. destruct (zr_minex o), (zr_maxex o), (fl_lt (snd e) mn), (fl_lt mn (snd e)), (fl_lt mx (snd e)), (fl_lt (snd e) mx); reflexivity.
Qed.

(* ---------- set.go ---------- *)
Lemma g_has_spec m : forall s, g_has m s = mem m s.
Proof. induction s as [|x r IH]; [reflexivity|]. cbn [g_has mem]. rewrite (bytes_eqb_sym x m), IH. destruct (bytes_eqb m x); reflexivity. Qed.

Lemma g_sadd_spec : forall ms s a, g_sadd s ms a = (fst (sadd s ms), a + snd (sadd s ms)).
Proof.
  induction ms as [|m r IH]; intros s a; [cbn; f_equal; lia|].
  cbn [g_sadd sadd]. rewrite g_has_spec. destruct (mem m s); [apply IH|].
  rewrite IH. destruct (sadd (s ++ [m]) r) as [s' n]. cbn [fst snd]. f_equal. lia.
Qed.

Lemma g_remove_first_spec m : forall s, g_remove_first m s = (remove1 m s, mem m s).
Proof.
  induction s as [|x r IH]; [reflexivity|]. cbn [g_remove_first remove1 mem]. rewrite (bytes_eqb_sym x m).
  destruct (bytes_eqb m x); [reflexivity|]. rewrite IH. reflexivity.
Qed.

Lemma remove1_absent m : forall s, mem m s = false -> remove1 m s = s.
Proof.
  induction s as [|x r IH]; [reflexivity|]. cbn [mem remove1]. destruct (bytes_eqb m x); [discriminate|]. cbn [orb]. intros H. rewrite (IH H). reflexivity.
Qed.

Lemma g_srem_spec : forall ms s a, g_srem s ms a = (fst (srem s ms), a + snd (srem s ms)).
Proof.
  induction ms as [|m r IH]; intros s a; [cbn; f_equal; lia|].
  cbn [g_srem srem]. rewrite g_remove_first_spec. destruct (mem m s) eqn:E.
  - rewrite IH. destruct (srem (remove1 m s) r) as [s' n]. cbn [fst snd]. f_equal. lia.
  - rewrite (remove1_absent m s E). apply IH.
Qed.

(* ---------- list.go ---------- *)
Lemma g_lpop_loop_spec : forall n l, g_lpop_loop n l = (firstn n l, skipn n l).
Proof.
  induction n as [|n IH]; intros l; [reflexivity|]. destruct l as [|x r]; [reflexivity|]. cbn [g_lpop_loop firstn skipn]. rewrite IH. reflexivity.
Qed.

Lemma g_rpop_loop_spec : forall n l, g_rpop_loop n l = (firstn n (rev l), rev (skipn n (rev l))).
Proof.
  induction n as [|n IH]; intros l; [cbn; rewrite rev_involutive; reflexivity|].
  cbn [g_rpop_loop]. destruct (rev l) as [|x rr] eqn:E; [reflexivity|].
  rewrite IH, rev_involutive. reflexivity.
Qed.

Lemma g_lpush_spec : forall es l, g_lpush l es = rev es ++ l.
Proof.
  unfold g_lpush. induction es as [|e r IH]; intros l; [reflexivity|]. cbn [fold_left rev]. rewrite IH, <- app_assoc. reflexivity.
Qed.

Lemma nth_error_skipn {A} : forall n (l : list A), nth_error l n = match skipn n l with x :: _ => Some x | [] => None end.
Proof. induction n as [|n IH]; intros [|x r]; try reflexivity. cbn [nth_error skipn]. apply IH. Qed.

(* ---------- hash.go, generic.go ---------- *)
Lemma g_hdel_spec : forall fs h a, g_hdel h fs a = (fst (hdel h fs), a + snd (hdel h fs)).
Proof.
  induction fs as [|f r IH]; intros h a; [cbn; f_equal; lia|].
  cbn [g_hdel hdel]. destruct (ahas h f); [|apply IH].
  rewrite IH. destruct (hdel (adel h f) r) as [h' n]. cbn [fst snd]. f_equal. lia.
Qed.

Lemma g_del_spec : forall ks d a, g_del d ks a = (fst (del_keys d ks), a + snd (del_keys d ks)).
Proof.
  induction ks as [|k r IH]; intros d a; [cbn; f_equal; lia|].
  cbn [g_del del_keys]. destruct (ahas d k); [|apply IH].
  rewrite IH. destruct (del_keys (adel d k) r) as [d' n]. cbn [fst snd]. f_equal. lia.
Qed.

Lemma g_exists_spec d : forall ks a, g_exists d ks a = a + count_if_b (ahas d) ks.
Proof.
  induction ks as [|k r IH]; intros a; [cbn; lia|]. cbn [g_exists count_if_b]. rewrite IH. destruct (ahas d k); lia.
Qed.

Lemma adel_aset_comm {V} (k n : bytes) (v : V) : bytes_eqb k n = false -> forall d, adel (aset d n v) k = aset (adel d k) n v.
Proof.
  intros Hkn. induction d as [|[k' v'] r IH]; cbn [aset adel].
  - rewrite Hkn. reflexivity.
  - destruct (bytes_eqb n k') eqn:E1, (bytes_eqb k k') eqn:E2; cbn [aset adel]; rewrite ?E1, ?E2.
    + apply bytes_eqb_eq in E1, E2. subst. rewrite bytes_eqb_refl in Hkn. discriminate.
    + reflexivity.
    + reflexivity.
    + rewrite IH. reflexivity.
Qed.

(* ---------- the refinement ---------- *)
Definition is_str (v : rval) : bool := match v with VStr _ => true | _ => false end.
Definition is_hash (v : rval) : bool := match v with VHash _ => true | _ => false end.
Definition is_list (v : rval) : bool := match v with VList _ => true | _ => false end.
Definition is_set (v : rval) : bool := match v with VSet _ => true | _ => false end.
Definition is_zset (v : rval) : bool := match v with VZSet _ => true | _ => false end.

(* the key is absent or holds a value of the command's data type *)
Definition kind_ok (d : db) (k : bytes) (p : rval -> bool) : Prop :=
  match aget d k with Some v => p v = true | None => True end.

(* "each key is used with one data type", and the argument lists the framework guarantees to be non-empty *)
Definition typed (d : db) (c : hcall) : Prop :=
  match c with
  | HSet k _ _ | HGet k => kind_ok d k is_str
  | HHDel k _ | HHSet k _ _ _ | HHGet k _ | HHGetAll k => kind_ok d k is_hash
  | HLPush k es _ | HRPush k es _ => kind_ok d k is_list /\ es <> []
  | HLPop k _ | HRPop k _ | HLRange k _ _ | HLIndex k _ | HLLen k => kind_ok d k is_list
  | HSAdd k ms => kind_ok d k is_set /\ ms <> []
  | HSMembers k | HSRem k _ => kind_ok d k is_set
  | HZAdd k ms _ => kind_ok d k is_zset /\ ms <> []
  | HZRange k _ _ _ | HZRem k _ | HZScore k _ | HZIncBy k _ _ => kind_ok d k is_zset
  | HZRangeByScore k _ _ o => kind_ok d k is_zset /\ zr_rev o = false
  | HScan _ _ => False      (* a single SCAN reply depends on the cursor encoding: specified by its iteration (StoreScan.v) *)
  | _ => True
  end.

Lemma wf_get d k v : wf_db d -> aget d k = Some v -> wf_val v.
Proof. intros [_ H] E. exact (aget_forall wf_val d k v H E). Qed.

Lemma sadd_nonempty_new : forall ms, ms <> [] -> fst (sadd [] ms) <> [].
Proof.
  intros [|m r] H; [congruence|]. cbn [sadd mem app].
  pose proof (sadd_nonempty r [m]) as N. destruct (sadd [m] r) as [s' n]. cbn [fst] in *. apply N. discriminate.
Qed.

Lemma zadd_nonempty_new : forall ms, ms <> [] -> fst (zadd [] ms) <> [].
Proof.
  intros [|[sc m] r] H; [congruence|]. cbn [zadd zscore aget zinsert].
  pose proof (zadd_nonempty r [(m, sc)]) as N. destruct (zadd [(m, sc)] r) as [z' n]. cbn [fst] in *. apply N. discriminate.
Qed.

Ltac kind H :=      (* H : kind_ok d k p ; E : aget d k = ... in the context *)
  unfold kind_ok in H;
  match goal with E : aget _ _ = _ |- _ => rewrite E in H end; cbn in H; try discriminate.

Theorem store_refines_reference d c : wf_db d -> typed d c -> sprim d c = dprim d c.
Proof.
  intros W T. destruct c; cbn [sprim dprim typed] in *.
  - (* DEL *) rewrite g_del_spec. destruct (del_keys d keys) as [d' n]. cbn [fst snd]. reflexivity.
  - (* EXISTS *) rewrite g_exists_spec. reflexivity.
  - reflexivity.
  - reflexivity.
  - (* RENAME *) destruct (aget d key) as [v|] eqn:E; [|reflexivity].
    destruct nx; cbn [andb].
    + destruct (ahas d newkey) eqn:A; [reflexivity|].
      destruct (bytes_eqb key newkey) eqn:K.
      * apply bytes_eqb_eq in K. subst newkey. unfold ahas in A. rewrite E in A. discriminate.
      * rewrite (adel_aset_comm key newkey v K). reflexivity.
    + destruct (bytes_eqb key newkey) eqn:K; [reflexivity|]. rewrite (adel_aset_comm key newkey v K). reflexivity.
  - reflexivity.
  - reflexivity.
  - (* SCAN *) contradiction.
  - (* SET *) destruct (so_xx o && negb (ahas d key)); [reflexivity|]. destruct (so_nx o); [reflexivity|].
    destruct (so_get o); [|reflexivity]. destruct (aget d key) as [[s|h|l|s|z]|] eqn:E; try reflexivity; kind T.
  - (* GET *) destruct (aget d key) as [[s|h|l|s|z]|] eqn:E; try reflexivity; kind T.
  - (* HDEL *) destruct (aget d key) as [[s|h|l|s|z]|] eqn:E; try reflexivity; try (kind T).
    rewrite g_hdel_spec. destruct (hdel h fields) as [h' n]. cbn [fst snd]. unfold put_or_del. destruct h'; reflexivity.
  - (* HSET *) destruct (aget d key) as [[s|h|l|s|z]|] eqn:E; try reflexivity; try (kind T).
    destruct nx, (ahas h field); reflexivity.
  - (* HGET *) destruct (aget d key) as [[s|h|l|s|z]|] eqn:E; try reflexivity; kind T.
  - (* HGETALL *) destruct (aget d key) as [[s|h|l|s|z]|] eqn:E; try reflexivity; kind T.
  - (* LPUSH *) destruct T as [T Hne]. unfold ahas. destruct (aget d key) as [[s|h|l|s|z]|] eqn:E; try (kind T).
    + rewrite andb_false_r. rewrite g_lpush_spec. reflexivity.
    + rewrite andb_true_r. destruct x; [reflexivity|]. rewrite g_lpush_spec, app_nil_r.
      destruct elems; [congruence|]. unfold lenZ. rewrite rev_length. reflexivity.
  - (* RPUSH *) destruct T as [T Hne]. unfold ahas. destruct (aget d key) as [[s|h|l|s|z]|] eqn:E; try (kind T).
    + rewrite andb_false_r. reflexivity.
    + rewrite andb_true_r. destruct x; [reflexivity|]. destruct elems; [congruence|]. reflexivity.
  - (* LPOP *) destruct (aget d key) as [[s|h|l|s|z]|] eqn:E; try reflexivity; try (kind T).
    pose proof (wf_get d key _ W E) as Wl. cbn [wf_val] in Wl.
    unfold g_pop. destruct (Z.ltb_spec count 1) as [Hc|Hc]; [destruct l; [congruence|rewrite (aset_same d key _ E); reflexivity]|].
    rewrite g_lpop_loop_spec.
    assert (M : (if lenZ l <? count then lenZ l else count) = Z.min count (lenZ l)) by (destruct (Z.ltb_spec (lenZ l) count); lia).
    rewrite M. set (m := Z.to_nat (Z.min count (lenZ l))).
    assert (Hm : (1 <= m)%nat) by (unfold m, lenZ; destruct l; [congruence|cbn [length]; lia]).
    unfold put_or_del. destruct (skipn m l) eqn:S; (destruct (firstn m l) as [|x r] eqn:F; [destruct l; [congruence|]; destruct m; [lia|discriminate]|]);
      destruct (count =? 1); reflexivity.
  - (* RPOP *) destruct (aget d key) as [[s|h|l|s|z]|] eqn:E; try reflexivity; try (kind T).
    pose proof (wf_get d key _ W E) as Wl. cbn [wf_val] in Wl.
    unfold g_pop. destruct (Z.ltb_spec count 1) as [Hc|Hc]; [destruct l; [congruence|rewrite (aset_same d key _ E); reflexivity]|].
    rewrite g_rpop_loop_spec.
    assert (M : (if lenZ l <? count then lenZ l else count) = Z.min count (lenZ l)) by (destruct (Z.ltb_spec (lenZ l) count); lia).
    rewrite M. set (m := Z.to_nat (Z.min count (lenZ l))).
    assert (Hm : (1 <= m)%nat) by (unfold m, lenZ; destruct l; [congruence|cbn [length]; lia]).
    assert (Hr : rev l <> []) by (intros R; apply (f_equal (@length _)) in R; rewrite rev_length in R; destruct l; [congruence|discriminate]).
    unfold put_or_del. destruct (rev (skipn m (rev l))) eqn:S; (destruct (firstn m (rev l)) as [|x r] eqn:F; [destruct (rev l); [congruence|]; destruct m; [lia|discriminate]|]);
      destruct (count =? 1); reflexivity.
  - (* LRANGE *) destruct (aget d key) as [[s|h|l|s|z]|] eqn:E; try reflexivity; try (kind T). rewrite g_lrange_spec. reflexivity.
  - (* LINDEX *) destruct (aget d key) as [[s|h|l|s|z]|] eqn:E; try reflexivity; try (kind T).
    unfold g_lindex. set (idx := if index <? 0 then lenZ l + index else index).
    replace (lenZ l - 1 <? idx) with (lenZ l <=? idx) by (destruct (Z.ltb_spec (lenZ l - 1) idx), (Z.leb_spec (lenZ l) idx); lia).
    destruct ((idx <? 0) || (lenZ l <=? idx)); [reflexivity|]. rewrite nth_error_skipn. destruct (skipn (Z.to_nat idx) l); reflexivity.
  - (* LLEN *) destruct (aget d key) as [[s|h|l|s|z]|] eqn:E; try reflexivity; kind T.
  - (* SADD *) destruct T as [T Hne]. destruct (aget d key) as [[s|h|l|s|z]|] eqn:E; try (kind T).
    + rewrite g_sadd_spec. destruct (sadd s members) as [s' n]. reflexivity.
    + rewrite g_sadd_spec. pose proof (sadd_nonempty_new members Hne) as N. destruct (sadd [] members) as [s' n]. cbn [fst snd] in *.
      unfold put_or_del. destruct s'; [congruence|reflexivity].
  - (* SMEMBERS *) destruct (aget d key) as [[s|h|l|s|z]|] eqn:E; try reflexivity; kind T.
  - (* SREM *) destruct (aget d key) as [[s|h|l|s|z]|] eqn:E; try reflexivity; try (kind T).
    rewrite g_srem_spec. destruct (srem s members) as [s' n]. cbn [fst snd]. unfold put_or_del. destruct s'; reflexivity.
  - (* ZADD *) destruct T as [T Hne]. destruct (aget d key) as [[s|h|l|s|z]|] eqn:E; try (kind T).
    + rewrite g_zadd_spec. destruct (zadd z members) as [z' n]. reflexivity.
    + rewrite g_zadd_spec. pose proof (zadd_nonempty_new members Hne) as N. destruct (zadd [] members) as [z' n]. cbn [fst snd] in *.
      unfold put_or_del. destruct z'; [congruence|reflexivity].
  - (* ZRANGE *) destruct (aget d key) as [[s|h|l|s|z]|] eqn:E; try reflexivity; try (kind T). rewrite g_zrange_spec. reflexivity.
  - (* ZRANGEBYSCORE *) destruct T as [T R]. destruct (aget d key) as [[s|h|l|s|z]|] eqn:E; try reflexivity; try (kind T).
    rewrite (g_zrangebyscore_spec z min max o R). reflexivity.
  - (* ZREM *) destruct (aget d key) as [[s|h|l|s|z]|] eqn:E; try reflexivity; try (kind T).
    rewrite g_zrem_spec. destruct (zrem z members) as [z' n]. cbn [fst snd]. unfold put_or_del. destruct z'; reflexivity.
  - (* ZSCORE *) destruct (aget d key) as [[s|h|l|s|z]|] eqn:E; try reflexivity; try (kind T). rewrite g_zscore_spec. reflexivity.
  - (* ZINCRBY *) destruct (aget d key) as [[s|h|l|s|z]|] eqn:E; try reflexivity; try (kind T).
    pose proof (wf_get d key _ W E) as (Wne & Wnd & Wso). 
    rewrite g_remove_member_spec, g_zscore_spec.
    destruct (fl_add match zscore member z with Some x => x | None => FNum 0 end inc) as [x|]; [|reflexivity].
    cbn [g_zadd]. rewrite g_remove_member_spec, g_insert_find.
    destruct (nodup_zremove member z Wnd) as [_ Hni].
    assert (Z0 : zscore member (zremove member z) = None).
    { destruct (zscore member (zremove member z)) eqn:Z1; [|reflexivity]. exfalso. apply Hni. apply zscore_in. congruence. }
    rewrite (zremove_absent _ _ Z0). reflexivity.
Qed.

(* ---------- programs ---------- *)
Fixpoint run_with (f : db -> hcall -> db * hresult) (d : db) (cs : list hcall) : db * list hresult :=
  match cs with
  | [] => (d, [])
  | c :: r => let (d1, x) := f d c in let (d2, xs) := run_with f d1 r in (d2, x :: xs)
  end.

(* every call of the program is typed in the state it is issued in *)
Fixpoint typed_program (d : db) (cs : list hcall) : Prop :=
  match cs with
  | [] => True
  | c :: r => typed d c /\ typed_program (fst (dprim d c)) r
  end.

Theorem store_program_refines : forall cs d, wf_db d -> typed_program d cs -> run_with sprim d cs = run_with dprim d cs.
Proof.
  induction cs as [|c r IH]; intros d W T; [reflexivity|]. cbn [run_with typed_program] in *. destruct T as [T1 T2].
  rewrite (store_refines_reference d c W T1). pose proof (dprim_wf d c W) as W1.
  destruct (dprim d c) as [d1 x]. cbn [fst] in *. rewrite (IH d1 W1 T2). reflexivity.
Qed.

(* hence the store model keeps the invariant of C18 (unique keys / fields / members, sorted sets, no empty container) *)
Corollary sprim_wf d c : wf_db d -> typed d c -> wf_db (fst (sprim d c)).
Proof. intros W T. rewrite (store_refines_reference d c W T). apply dprim_wf; exact W. Qed.
