(* Store.v — a model of the bundled example store, examples/go-redisd/server (string.go, hash.go, list.go, set.go, zset.go,
   generic.go, database.go, records.go), written function by function in the shape of the Go code: the slice-backed List,
   Set and ZSet with their loops, the map-backed Hash and record table as association lists (Go map iteration order is
   arbitrary; replies that expose it are compared as sets by the correspondence run).
   NOT modelled (sprim answers like the reference): expiry (EXPIRE / TTL need a clock).
   Floats: scores are exact (Handler.fl); Go's float64 comparison operators are the model's fl_lt / fl_le on non-NaN values. *)
From Coq Require Import String QArith Lia.
From GR Require Import Base Resp Handler Exec Glob Redis.
Open Scope Z_scope.

(* ---------- zset.go ---------- *)
(* for n, tm := range zset.members { if tm.Member == m { zset.members = append(members[:n], members[n+1:]...); found; break } } *)
Fixpoint g_remove_member (m : bytes) (z : list (bytes * fl)) : list (bytes * fl) * bool :=
  match z with
  | [] => ([], false)
  | x :: r => if bytes_eqb (fst x) m then (r, true) else let (r', f) := g_remove_member m r in (x :: r', f)
  end.

(* pos := len(members); for n, tm := range members { if nm.Score < tm.Score || (nm.Score == tm.Score && nm.Member < tm.Member) { pos = n; break } } *)
Fixpoint g_find_pos (e : bytes * fl) (z : list (bytes * fl)) : nat :=
  match z with
  | [] => 0%nat
  | x :: r => if zlt e x then 0%nat else S (g_find_pos e r)
  end.

(* members = append(members, nil); copy(members[pos+1:], members[pos:]); members[pos] = nm *)
Definition g_insert_at {A} (pos : nat) (e : A) (l : list A) : list A := firstn pos l ++ e :: skipn pos l.

(* ZSet.Add *)
Fixpoint g_zadd (z : list (bytes * fl)) (nms : list (fl * bytes)) (added : Z) : list (bytes * fl) * Z :=
  match nms with
  | [] => (z, added)
  | (sc, m) :: r =>
    let (z1, found) := g_remove_member m z in
    let z2 := g_insert_at (g_find_pos (m, sc) z1) (m, sc) z1 in
    g_zadd z2 r (if found then added else added + 1)
  end.

(* limitZSetMembers *)
Definition g_limit {A} (offset count : Z) (l : list A) : list A :=
  let len := lenZ l in
  let offset := if (offset <? 0) || (len <? offset) then len else offset in
  let stop := if (0 <=? count) && (count <? len - offset) then offset + count else len in
  firstn (Z.to_nat (stop - offset)) (skipn (Z.to_nat offset) l).

(* mems := []; for n := start; n <= stop; n++ { mems = append(mems, l[n]) }   (0 <= start, stop < len) *)
Definition g_loop_slice {A} (l : list A) (start stop : Z) : list A :=
  if start <=? stop then firstn (Z.to_nat (stop - start + 1)) (skipn (Z.to_nat start) l) else [].

(* ZSet.Range *)
Definition g_zrange (z : list (bytes * fl)) (start stop : Z) (o : zrange_opt) : list (bytes * fl) :=
  let len := lenZ z in
  let start := if start <? 0 then len + start else start in
  let stop := if stop <? 0 then len + stop else stop in
  let start := if start <? 0 then 0 else start in
  let stop := if len - 1 <? stop then len - 1 else stop in
  let (start, stop) := if zr_rev o then (len - 1 - stop, len - 1 - start) else (start, stop) in
  let mems := g_loop_slice z start stop in
  let mems := if zr_rev o then rev mems else mems in
  g_limit (zr_offset o) (zr_count o) mems.

(* ZSet.RangeByScore *)
Definition g_zrangebyscore (z : list (bytes * fl)) (mn mx : fl) (o : zrange_opt) : list (bytes * fl) :=
  let keep (e : bytes * fl) :=
    negb ((fl_lt (snd e) mn && negb (zr_minex o)) || (fl_le (snd e) mn && zr_minex o)) &&
    negb ((fl_lt mx (snd e) && negb (zr_maxex o)) || (fl_le mx (snd e) && zr_maxex o)) in
  let mems := g_limit (zr_offset o) (zr_count o) (filter keep z) in
  if zr_rev o then rev mems else mems.

(* ZSet.Rem *)
Fixpoint g_zrem (z : list (bytes * fl)) (ms : list bytes) (removed : Z) : list (bytes * fl) * Z :=
  match ms with
  | [] => (z, removed)
  | m :: r => let (z1, found) := g_remove_member m z in g_zrem z1 r (if found then removed + 1 else removed)
  end.

(* ZSet.Score *)
Fixpoint g_zscore (m : bytes) (z : list (bytes * fl)) : option fl :=
  match z with
  | [] => None
  | x :: r => if bytes_eqb (fst x) m then Some (snd x) else g_zscore m r
  end.

(* ---------- set.go ---------- *)
Fixpoint g_has (m : bytes) (s : list bytes) : bool :=
  match s with [] => false | x :: r => if bytes_eqb x m then true else g_has m r end.

Fixpoint g_sadd (s : list bytes) (ms : list bytes) (added : Z) : list bytes * Z :=
  match ms with
  | [] => (s, added)
  | m :: r => if g_has m s then g_sadd s r added else g_sadd (s ++ [m]) r (added + 1)
  end.

Fixpoint g_remove_first (m : bytes) (s : list bytes) : list bytes * bool :=
  match s with
  | [] => ([], false)
  | x :: r => if bytes_eqb x m then (r, true) else let (r', f) := g_remove_first m r in (x :: r', f)
  end.

Fixpoint g_srem (s : list bytes) (ms : list bytes) (removed : Z) : list bytes * Z :=
  match ms with
  | [] => (s, removed)
  | m :: r => let (s1, found) := g_remove_first m s in g_srem s1 r (if found then removed + 1 else removed)
  end.

(* ---------- list.go ---------- *)
(* for n := 0; n < count; n++ { elems = append(elems, l[0]); l = l[1:] } *)
Fixpoint g_lpop_loop (n : nat) (l : list bytes) : list bytes * list bytes :=
  match n with
  | O => ([], l)
  | S n' => match l with
            | [] => ([], [])
            | x :: r => let (e, l') := g_lpop_loop n' r in (x :: e, l')
            end
  end.

(* for n := 0; n < count; n++ { elems = append(elems, l[len-1]); l = l[:len-1] } *)
Fixpoint g_rpop_loop (n : nat) (l : list bytes) : list bytes * list bytes :=
  match n with
  | O => ([], l)
  | S n' => match rev l with
            | [] => ([], [])
            | x :: rr => let (e, l') := g_rpop_loop n' (rev rr) in (x :: e, l')
            end
  end.

(* List.LPop / RPop: (elements, ok, remaining list) *)
Definition g_pop (left : bool) (l : list bytes) (count : Z) : option (list bytes) * list bytes :=
  if count <? 1 then (None, l)
  else let count := if lenZ l <? count then lenZ l else count in
       let (e, l') := (if left then g_lpop_loop else g_rpop_loop) (Z.to_nat count) l in
       (Some e, l').

(* for _, elem := range elems { l = append([]string{elem}, l...) } *)
Definition g_lpush (l es : list bytes) : list bytes := fold_left (fun acc e => e :: acc) es l.

(* List.Range *)
Definition g_lrange (l : list bytes) (start stop : Z) : list bytes :=
  let len := lenZ l in
  let start := if start <? 0 then len + start else start in
  let stop := if stop <? 0 then len + stop else stop in
  let start := if start <? 0 then 0 else start in
  let stop := if len - 1 <? stop then len - 1 else stop in
  g_loop_slice l start stop.

(* List.Index *)
Definition g_lindex (l : list bytes) (idx : Z) : option bytes :=
  let idx := if idx <? 0 then lenZ l + idx else idx in
  if (idx <? 0) || (lenZ l - 1 <? idx) then None else nth_error l (Z.to_nat idx).

(* ---------- hash.go ---------- *)
Fixpoint g_hdel (h : list (bytes * bytes)) (fs : list bytes) (removed : Z) : list (bytes * bytes) * Z :=
  match fs with
  | [] => (h, removed)
  | f :: r => if ahas h f then g_hdel (adel h f) r (removed + 1) else g_hdel h r removed
  end.

(* ---------- generic.go ---------- *)
Fixpoint g_del (d : db) (ks : list bytes) (removed : Z) : db * Z :=
  match ks with
  | [] => (d, removed)
  | k :: r => if ahas d k then g_del (adel d k) r (removed + 1) else g_del d r removed    (* RemoveRecord: error when absent *)
  end.

Fixpoint g_exists (d : db) (ks : list bytes) (n : Z) : Z :=
  match ks with [] => n | k :: r => g_exists d r (if ahas d k then n + 1 else n) end.

(* ---------- generic.go Scan ---------- *)
(* keys := db.Keys(); sort.Strings(keys) — Go compares strings bytewise; the record table holds each key once *)
Fixpoint insert_key (k : bytes) (l : list bytes) : list bytes :=
  match l with
  | [] => [k]
  | x :: r => if bytes_lt x k then x :: insert_key k r else k :: l
  end.
Definition sort_keys (l : list bytes) : list bytes := fold_right insert_key [] l.

(* opt.MatchPattern.MatchString(key): the option carries the source text of the compiled expression *)
Definition scan_match (src k : bytes) : bool :=
  match re_parse src with Some r => re_match r k | None => false end.

(* nextCursor := 0
   for n, key := range keys {
     if n < cursor { continue }
     if !opt.MatchPattern.MatchString(key) { continue }
     matchKeys.Append(key)
     if opt.Count <= matchKeys.Size() { nextCursor = n + 1; break }
   }                                                                   (0, acc) = the loop ran to the end *)
Fixpoint g_scan_loop (keys : list bytes) (n cursor count : Z) (src : bytes) (acc : list bytes) : Z * list bytes :=
  match keys with
  | [] => (0, acc)
  | k :: r =>
    if n <? cursor then g_scan_loop r (n + 1) cursor count src acc
    else if negb (scan_match src k) then g_scan_loop r (n + 1) cursor count src acc
    else let acc' := acc ++ [k] in
         if count <=? Z.of_nat (length acc') then (n + 1, acc') else g_scan_loop r (n + 1) cursor count src acc'
  end.

(* one SCAN call on the sorted key list: (cursor returned, keys returned);  if len(keys) <= nextCursor { nextCursor = 0 } *)
Definition scan_call (keys : list bytes) (cursor count : Z) (src : bytes) : Z * list bytes :=
  let (nx, ks) := g_scan_loop keys 0 cursor count src [] in
  ((if Z.of_nat (length keys) <=? nx then 0 else nx), ks).

Definition g_scan (d : db) (cursor : Z) (o : scan_opt) : hresult :=
  let (nx, ks) := scan_call (sort_keys (map fst d)) cursor (sc_count o) (sc_match o) in
  ok (RArr [bulk (itoa nx); RArr (map bulk ks)]).

Definition invalid_type : hresult := err "invalid stored data type".

Definition zitems (ws : bool) (l : list (bytes * fl)) : hresult :=
  ok (RArr (flat_map (fun e => if ws then [bulk (fst e); bulk (fl_text (snd e))] else [bulk (fst e)]) l)).

(* the handler methods of the example server on ONE database *)
Definition sprim (d : db) (c : hcall) : db * hresult :=
  match c with
  | HDel ks => let (d', n) := g_del d ks 0 in (d', r_int n)
  | HExists ks => (d, r_int (g_exists d ks 0))
  | HExpire k _ => (d, r_int (if ahas d k then 1 else 0))                      (* the TTL itself is not modelled *)
  | HKeys p => (d, r_arr (filter (fun k => glob_match p k) (map fst d)))
  | HRename k n nx =>
    match aget d k with
    | None => (d, err "ERR no such key")       (* error TEXTS are not modelled: ErrNotFound here *)
    | Some v =>
      if nx && ahas d n then (d, r_int 0)
      else let d' := if bytes_eqb k n then d else adel (aset d n v) k in      (* RenameRecord: SetRecord(newkey) then RemoveRecord(key) *)
           (d', if nx then r_int 1 else r_ok)
    end
  | HType k => (d, ok (RStatus (match aget d k with Some v => bytes_of_string (type_name v) | None => B"none" end)))
  | HTTL k => (d, r_int (if ahas d k then -1 else -2))                         (* no TTL is ever set in the model *)
  | HScan cur o => (d, g_scan d cur o)
  | HSet k v o =>
    if so_xx o && negb (ahas d k) then (d, r_nil)
    else if so_nx o then (if ahas d k then (d, r_int 0) else (aset d k (VStr v), r_int 1))
    else if so_get o then
      (aset d k (VStr v), match aget d k with Some (VStr old) => r_bulk old | _ => r_nil end)
    else (aset d k (VStr v), r_ok)
  | HGet k => (d, match aget d k with Some (VStr s) => r_bulk s | _ => r_nil end)
  | HHDel k fs =>
    match aget d k with
    | Some (VHash h) => let (h', n) := g_hdel h fs 0 in ((match h' with [] => adel d k | _ => aset d k (VHash h') end), r_int n)
    | _ => (d, r_int 0)
    end
  | HHSet k f v nx =>
    match aget d k with
    | Some (VHash h) =>
      if nx && ahas h f then (d, r_int 0)
      else (aset d k (VHash (aset h f v)), r_int (if ahas h f then 0 else 1))
    | _ => (aset d k (VHash [(f, v)]), r_int 1)                               (* a key of another type is overwritten *)
    end
  | HHGet k f =>
    (d, match aget d k with Some (VHash h) => (match aget h f with Some v => r_bulk v | None => r_nil end) | _ => r_nil end)
  | HHGetAll k =>
    (d, match aget d k with Some (VHash h) => ok (RArr (flat_map (fun fv => [bulk (fst fv); bulk (snd fv)]) h)) | _ => ok (RArr []) end)
  | HLPush k es x =>
    if x && negb (ahas d k) then (d, r_int 0)
    else match aget d k with
         | Some (VList l) => let l' := g_lpush l es in (aset d k (VList l'), r_int (lenZ l'))
         | Some _ => (d, invalid_type)
         | None => let l' := g_lpush [] es in (aset d k (VList l'), r_int (lenZ l'))
         end
  | HRPush k es x =>
    if x && negb (ahas d k) then (d, r_int 0)
    else match aget d k with
         | Some (VList l) => let l' := l ++ es in (aset d k (VList l'), r_int (lenZ l'))
         | Some _ => (d, invalid_type)
         | None => (aset d k (VList es), r_int (lenZ es))
         end
  | HLPop k n | HRPop k n =>
    match aget d k with
    | None => (d, r_nil)
    | Some (VList l) =>
      let (got, l') := g_pop (match c with HLPop _ _ => true | _ => false end) l n in
      let d' := match l' with [] => adel d k | _ => aset d k (VList l') end in
      (d', match got with
           | None | Some [] => r_nil
           | Some (x :: r) => if n =? 1 then r_bulk x else r_arr (x :: r)
           end)
    | Some _ => (d, invalid_type)
    end
  | HLRange k a b =>
    match aget d k with
    | None => (d, r_arr [])
    | Some (VList l) => (d, r_arr (g_lrange l a b))
    | Some _ => (d, invalid_type)
    end
  | HLIndex k i =>
    match aget d k with
    | None => (d, r_nil)
    | Some (VList l) => (d, match g_lindex l i with Some x => r_bulk x | None => r_nil end)
    | Some _ => (d, invalid_type)
    end
  | HLLen k =>
    match aget d k with
    | None => (d, r_int 0)
    | Some (VList l) => (d, r_int (lenZ l))
    | Some _ => (d, invalid_type)
    end
  | HSAdd k ms =>
    match aget d k with
    | Some (VSet s) => let (s', n) := g_sadd s ms 0 in (aset d k (VSet s'), r_int n)
    | Some _ => (d, invalid_type)
    | None => let (s', n) := g_sadd [] ms 0 in (aset d k (VSet s'), r_int n)
    end
  | HSMembers k =>
    match aget d k with
    | None => (d, r_arr [])
    | Some (VSet s) => (d, r_arr s)
    | Some _ => (d, invalid_type)
    end
  | HSRem k ms =>
    match aget d k with
    | None => (d, r_int 0)
    | Some (VSet s) => let (s', n) := g_srem s ms 0 in ((match s' with [] => adel d k | _ => aset d k (VSet s') end), r_int n)
    | Some _ => (d, invalid_type)
    end
  | HZAdd k ms _ =>
    match aget d k with
    | Some (VZSet z) => let (z', n) := g_zadd z ms 0 in (aset d k (VZSet z'), r_int n)
    | Some _ => (d, invalid_type)
    | None => let (z', n) := g_zadd [] ms 0 in (aset d k (VZSet z'), r_int n)
    end
  | HZRange k a b o =>
    match aget d k with
    | None => (d, ok (RArr []))
    | Some (VZSet z) => (d, zitems (zr_withscores o) (g_zrange z a b o))
    | Some _ => (d, invalid_type)
    end
  | HZRangeByScore k mn mx o =>
    match aget d k with
    | None => (d, ok (RArr []))
    | Some (VZSet z) => (d, zitems (zr_withscores o) (g_zrangebyscore z mn mx o))
    | Some _ => (d, invalid_type)
    end
  | HZRem k ms =>
    match aget d k with
    | None => (d, r_int 0)
    | Some (VZSet z) => let (z', n) := g_zrem z ms 0 in ((match z' with [] => adel d k | _ => aset d k (VZSet z') end), r_int n)
    | Some _ => (d, invalid_type)
    end
  | HZScore k m =>
    (d, match aget d k with
        | Some (VZSet z) => (match g_zscore m z with Some x => r_bulk (fl_text x) | None => r_nil end)
        | _ => r_nil
        end)
  | HZIncBy k inc m =>
    match aget d k with
    | Some (VZSet z) =>
      let (z1, found) := g_remove_member m z in
      match fl_add (match g_zscore m z with Some x => x | None => FNum 0 end) inc with
      | Some x => let (z2, _) := g_zadd z1 [(x, m)] 0 in (aset d k (VZSet z2), r_bulk (fl_text x))
      | None => (d, err "ERR resulting score is not a number (NaN)")
      end
    | Some _ => (d, invalid_type)
    | None => let (z2, _) := g_zadd [] [(inc, m)] 0 in (aset d k (VZSet z2), r_bulk (fl_text inc))
    end
  end.

(* the example server: the database is the one selected on the issuing connection *)
Definition sprim_store (s : store) (id : Z) (c : hcall) : store * hresult :=
  let (d', r) := sprim (zget s id) c in (zput s id d', r).
