(* SugarFacts.v — the commands the framework answers itself or derives from primitive handler operations, run over
   the Redis reference primitives (Redis.dprim on one database), return the reply and leave the database in the
   state Redis defines (C12).  `run x c a d` executes executor x on arguments a with database d and projects the
   final database and the result (events dropped). *)
From Coq Require Import String QArith Lia.
From GR Require Import Base BaseFacts Resp Handler Exec Conn Redis GrammarFacts.
Open Scope Z_scope.

Definition dhandle (d : db) (_ : Z) (c : hcall) : db * hresult := dprim d c.

Definition run (x : cstate -> args -> est db -> xres * est db) (c : cstate) (a : args) (d : db) : db * xres :=
  let (r, es) := x c a {| e_hs := d; e_evs := [] |} in (e_hs _ es, r).

Definition runP (x : cstate -> args -> est db -> outcome (xres * est db)) (c : cstate) (a : args) (d : db) : option (db * xres) :=
  match x c a {| e_hs := d; e_evs := [] |} with Ok (r, es) => Some (e_hs _ es, r) | Panic => None end.

Definition x_error (r : xres) : Prop := x_err r <> None.

(* ---------- association-list facts ---------- *)
Lemma aget_aset_same {V} (m : list (bytes * V)) k v : aget (aset m k v) k = Some v.
Proof.
  induction m as [|[k' v'] m IH]; cbn [aset aget].
  - rewrite bytes_eqb_refl. reflexivity.
  - destruct (bytes_eqb k k') eqn:E; cbn [aget]; rewrite ?E; [reflexivity|exact IH].
Qed.

Lemma bytes_eqb_sym a : forall b, bytes_eqb a b = bytes_eqb b a.
Proof. induction a as [|x a IH]; intros [|y b]; cbn [bytes_eqb]; try reflexivity. rewrite N.eqb_sym, IH. reflexivity. Qed.

Lemma aget_aset_other {V} (m : list (bytes * V)) k k2 v : bytes_eqb k2 k = false -> aget (aset m k v) k2 = aget m k2.
Proof.
  intros Hk. induction m as [|[k' v'] m IH]; cbn [aset aget].
  - rewrite Hk. reflexivity.
  - destruct (bytes_eqb k k') eqn:E; cbn [aget].
    + apply bytes_eqb_eq in E. subst k'. rewrite Hk. reflexivity.
    + destruct (bytes_eqb k2 k'); [reflexivity|exact IH].
Qed.

(* ---------- PING, ECHO, CONFIG ---------- *)
Theorem ping_spec : x_PING [] = x_ok (RStatus (B"PONG")) /\ forall m, m <> [] -> x_PING [bulk m] = x_ok (bulk m).
Proof. split; [reflexivity|]. intros m Hm. unfold x_PING, bulk, msg_string. destruct m; [congruence|reflexivity]. Qed.

Theorem echo_spec m : x_ECHO [bulk m] = x_ok (bulk m).
Proof. reflexivity. Qed.

Lemma cfg_get_set_same cfg k v : cfg_get (cfg_set cfg k v) k = Some v.
Proof.
  induction cfg as [|[k' v'] cfg IH]; cbn [cfg_set cfg_get].
  - rewrite bytes_eqb_refl. reflexivity.
  - destruct (bytes_eqb k k') eqn:E; cbn [cfg_get]; rewrite ?E, ?bytes_eqb_refl; [reflexivity|exact IH].
Qed.

Lemma cfg_get_set_other cfg k k2 v : bytes_eqb k2 k = false -> cfg_get (cfg_set cfg k v) k2 = cfg_get cfg k2.
Proof.
  intros Hk. induction cfg as [|[k' v'] cfg IH]; cbn [cfg_set cfg_get].
  - rewrite Hk. reflexivity.
  - destruct (bytes_eqb k k') eqn:E; cbn [cfg_get].
    + apply bytes_eqb_eq in E. subst k'. rewrite Hk. reflexivity.
    + destruct (bytes_eqb k2 k'); [reflexivity|exact IH].
Qed.

(* CONFIG SET k v then CONFIG GET: the value last stored, and the other parameters untouched; replies in request order *)
Theorem config_set_get ss k v :
  let ss' := snd (x_CONFIG ss [bulk (B"SET"); bulk k; bulk v]) in
  fst (x_CONFIG ss [bulk (B"SET"); bulk k; bulk v]) = x_ok ok_msg /\
  cfg_get (ss_config ss') k = Some v /\
  (forall k2, bytes_eqb k2 k = false -> cfg_get (ss_config ss') k2 = cfg_get (ss_config ss) k2).
Proof.
  cbn. split; [reflexivity|]. split; [apply cfg_get_set_same|]. intros k2 H. apply cfg_get_set_other; exact H.
Qed.

Theorem config_get_order ss keys : keys <> [] ->
  x_CONFIG ss (bulk (B"GET") :: map bulk keys) =
  (x_ok (RArr (flat_map (fun k => [bulk k; bulk (match cfg_get (ss_config ss) k with Some v => v | None => [] end)]) keys)), ss).
Proof.
  intros Hk. unfold x_CONFIG. cbn [bulk msg_string].
  replace (kw (B"GET") "SET") with false by reflexivity. replace (kw (B"GET") "GET") with true by reflexivity.
  rewrite strs1_bulks by (destruct keys; [congruence|reflexivity]). reflexivity.
Qed.

Section Sugar.
  Variable c : cstate.
  Hypothesis Hau : cs_auth c = true.
  Notation X x := (x db dhandle).

  (* ---------- STRLEN, APPEND ---------- *)
  Theorem strlen_spec d k :
    run (X x_STRLEN) c [bulk k] d =
    (d, match aget d k with
        | Some (VStr v) => x_ok (int_msg (lenZ v))
        | None => x_ok (int_msg 0)
        | Some _ => {| x_msg := None; x_err := x_err (x_of wrongtype) |}
        end).
  Proof.
    unfold run, x_STRLEN, nested, x_GET, x_key_only, Exec.pass, Exec.call, dhandle. rewrite Hau. cbn [key1 next_string bulk msg_string Exec.emit e_hs e_evs dprim].
    destruct (aget d k) as [[v|h|l|s|z]|]; reflexivity.
  Qed.

  Theorem append_spec d k v :
    run (X x_APPEND) c [bulk k; bulk v] d =
    match aget d k with
    | Some (VStr old) => (aset d k (VStr (old ++ v)), x_ok (int_msg (lenZ (old ++ v))))
    | None => (aset d k (VStr v), x_ok (int_msg (lenZ v)))
    | Some _ => (d, {| x_msg := None; x_err := x_err (x_of wrongtype) |})
    end.
  Proof.
    unfold run, x_APPEND, Exec.call, dhandle. cbn [key1 next_string bulk msg_string e_hs e_evs dprim].
    destruct (aget d k) as [[old|h|l|s|z]|]; cbn [hr_err hr_msg r_bulk r_nil ok hr_ok wrongtype err msg_string bulk nil_msg dprim default_set_opt so_nx so_xx so_get andb negb r_ok e_hs]; reflexivity.
  Qed.

  (* ---------- counters ---------- *)
  (* the integer a stored value denotes for INCR/DECR: a canonical decimal int64 (string2ll strictness); missing = 0 *)
  Definition counter_value (d : db) (k : bytes) : option Z :=
    match aget d k with
    | None => Some 0
    | Some (VStr b) => match atoi b with Some z => if bytes_eqb (itoa z) b then Some z else None | None => None end
    | Some _ => None
    end.

  Lemma atoi_digits_in64 neg ds z : atoi_digits neg ds = Some z -> in64 z = true.
  Proof.
    unfold atoi_digits. destruct ds; [discriminate|]. destruct (uint_of_bytes _); [|discriminate].
    cbn zeta. match goal with |- (if in64 ?v then _ else _) = _ -> _ => destruct (in64 v) eqn:E end; [|discriminate].
    intros H; inversion H; subst. exact E.
  Qed.

  Lemma atoi_in64 b z : atoi b = Some z -> in64 z = true.
  Proof.
    unfold atoi. destruct b as [|x r]; [discriminate|].
    destruct (x =? ch_minus)%N; [apply atoi_digits_in64|]. destruct (x =? ch_plus)%N; apply atoi_digits_in64.
  Qed.

  Lemma overflow_test cv delta : in64 cv = true -> in64 delta = true ->
    ((0 <? delta) && (max64 - delta <? cv)) || ((delta <? 0) && (cv <? min64 - delta)) = negb (in64 (cv + delta)).
  Proof.
    unfold in64, min64, max64. intros H1 H2. apply andb_prop in H1, H2. destruct H1 as [A1 A2], H2 as [B1 B2].
    apply Z.leb_le in A1, A2, B1, B2.
    destruct (Z.ltb_spec 0 delta), (Z.ltb_spec (2 ^ 63 - 1 - delta) cv), (Z.ltb_spec delta 0), (Z.ltb_spec cv (- 2 ^ 63 - delta)),
             (Z.leb_spec (- 2 ^ 63) (cv + delta)), (Z.leb_spec (cv + delta) (2 ^ 63 - 1)); cbn [andb orb negb]; try reflexivity; lia.
  Qed.

  (* INCR / DECR / INCRBY / DECRBY all go through incdec: the new value is old + delta when the old value is an integer
     and the sum is inside int64; otherwise an error and the database is untouched *)
  Theorem incdec_spec d k delta : in64 delta = true ->
    (let (r, es) := incdec db dhandle c k delta {| e_hs := d; e_evs := [] |} in (e_hs _ es, r)) =
    match counter_value d k with
    | Some cv => if in64 (cv + delta) then (aset d k (VStr (itoa (cv + delta))), x_ok (int_msg (cv + delta))) else (d, x_fw)
    | None => (d, match aget d k with
                  | Some (VStr _) => x_fw
                  | _ => {| x_msg := None; x_err := x_err (x_of wrongtype) |}
                  end)
    end.
  Proof.
    intros Hd. unfold incdec, counter_value, Exec.call, dhandle. cbn [e_hs e_evs dprim].
    destruct (aget d k) as [[b|h|l|s|z]|] eqn:Ek; cbn [hr_err hr_msg r_bulk r_nil ok hr_ok wrongtype err msg_is_nil bulk nil_msg msg_integer]; try reflexivity.
    - destruct (atoi b) as [zv|] eqn:Ea; [|reflexivity].
      destruct (bytes_eqb (itoa zv) b) eqn:Eb; [|reflexivity].
      rewrite (overflow_test zv delta (atoi_in64 _ _ Ea) Hd).
      destruct (in64 (zv + delta)); cbn [negb]; [|reflexivity].
      cbn [dprim default_set_opt so_nx so_xx so_get andb negb hr_err r_ok ok hr_ok e_hs]. reflexivity.
    - assert (H0 : in64 0 = true) by reflexivity. rewrite (overflow_test 0 delta H0 Hd).
      destruct (in64 (0 + delta)); cbn [negb]; [|reflexivity].
      cbn [dprim default_set_opt so_nx so_xx so_get andb negb hr_err r_ok ok hr_ok e_hs]. reflexivity.
  Qed.

  Theorem incr_spec d k : run (X x_INCR) c [bulk k] d =
    (let (r, es) := incdec db dhandle c k 1 {| e_hs := d; e_evs := [] |} in (e_hs _ es, r)).
  Proof. reflexivity. Qed.
  Theorem decr_spec d k : run (X x_DECR) c [bulk k] d =
    (let (r, es) := incdec db dhandle c k (-1) {| e_hs := d; e_evs := [] |} in (e_hs _ es, r)).
  Proof. reflexivity. Qed.
  Theorem incrby_spec d k n : in64 n = true -> run (X x_INCRBY) c [bulk k; bulk (itoa n)] d =
    (let (r, es) := incdec db dhandle c k n {| e_hs := d; e_evs := [] |} in (e_hs _ es, r)).
  Proof.
    intros Hn. unfold run, x_INCRBY. cbn [key1 next_string bulk msg_string]. unfold int1, next_integer, msg_integer, bulk. rewrite (atoi_itoa n Hn). reflexivity.
  Qed.
  (* DECRBY n subtracts n; the one int64 whose negation does not exist is refused *)
  Theorem decrby_spec d k n : in64 n = true -> run (X x_DECRBY) c [bulk k; bulk (itoa n)] d =
    if n =? min64 then (d, x_fw)
    else (let (r, es) := incdec db dhandle c k (- n) {| e_hs := d; e_evs := [] |} in (e_hs _ es, r)).
  Proof.
    intros Hn. unfold run, x_DECRBY. cbn [key1 next_string bulk msg_string]. unfold int1, next_integer, msg_integer, bulk. rewrite (atoi_itoa n Hn).
    destruct (n =? min64); reflexivity.
  Qed.

  (* ---------- GETRANGE / SUBSTR ---------- *)
  (* Redis' getrangeCommand: negative indexes count from the end, both are clamped into the value, an inverted or
     empty range is the empty string *)
  Definition redis_getrange (v : bytes) (st en : Z) : bytes :=
    let len := lenZ v in
    if (st <? 0) && (en <? 0) && (en <? st) then [] else
    let st := if st <? 0 then len + st else st in
    let en := if en <? 0 then len + en else en in
    let st := Z.max st 0 in
    let en := Z.max en 0 in
    let en := if len <=? en then len - 1 else en in
    if (len =? 0) || (en <? st) then [] else firstn (Z.to_nat (en - st + 1)) (skipn (Z.to_nat st) v).

  Lemma getrange_bounds_redis v st en :
    match getrange_bounds (lenZ v) st en with
    | None => redis_getrange v st en = []
    | Some (lo, hi) => go_slice v lo hi = Ok (redis_getrange v st en)
    end.
  Proof.
    unfold getrange_bounds, redis_getrange. cbv zeta.
    destruct ((st <? 0) && (en <? 0) && (en <? st)); [reflexivity|].
    set (st1 := if st <? 0 then lenZ v + st else st). set (en1 := if en <? 0 then lenZ v + en else en).
    replace (Z.max st1 0) with (if st1 <? 0 then 0 else st1) by (destruct (Z.ltb_spec st1 0); lia).
    replace (Z.max en1 0) with (if en1 <? 0 then 0 else en1) by (destruct (Z.ltb_spec en1 0); lia).
    set (st2 := if st1 <? 0 then 0 else st1). set (en2 := if en1 <? 0 then 0 else en1).
    set (en3 := if lenZ v <=? en2 then lenZ v - 1 else en2).
    destruct ((lenZ v =? 0) || (en3 <? st2)) eqn:E; [reflexivity|].
    apply orb_false_elim in E. destruct E as [E0 E1]. apply Z.eqb_neq in E0. apply Z.ltb_ge in E1.
    assert (0 <= st2) by (unfold st2; destruct (Z.ltb_spec st1 0); lia).
    assert (en3 <= lenZ v - 1) by (unfold en3; destruct (Z.leb_spec (lenZ v) en2); lia).
    unfold go_slice. fold (lenZ v).
    destruct (Z.leb_spec 0 st2); [|lia]. destruct (Z.leb_spec st2 (en3 + 1)); [|lia]. destruct (Z.leb_spec (en3 + 1) (lenZ v)); [|lia].
    cbn [andb]. replace (en3 + 1 - st2) with (en3 - st2 + 1) by lia. reflexivity.
  Qed.

  Theorem getrange_spec d k st en : in64 st = true -> in64 en = true ->
    runP (X x_GETRANGE) c [bulk k; bulk (itoa st); bulk (itoa en)] d =
    Some (d, match aget d k with
             | Some (VStr v) => x_ok (bulk (redis_getrange v st en))
             | None => x_ok (bulk [])
             | Some _ => {| x_msg := None; x_err := x_err (x_of wrongtype) |}
             end).
  Proof.
    intros H1 H2. unfold runP, x_GETRANGE. cbn [key1 next_string bulk msg_string]. unfold int1, next_integer, msg_integer, bulk.
    rewrite (atoi_itoa st H1), (atoi_itoa en H2). unfold Exec.call, dhandle. cbn [e_hs e_evs dprim].
    destruct (aget d k) as [[v|h|l|s|z]|]; cbn [hr_err hr_msg r_bulk r_nil ok hr_ok wrongtype err msg_is_nil bulk nil_msg msg_string]; try reflexivity.
    - pose proof (getrange_bounds_redis v st en) as G. destruct (getrange_bounds (lenZ v) st en) as [[lo hi]|].
      + rewrite G. reflexivity.
      + rewrite G. reflexivity.
    - assert (E : getrange_bounds (lenZ (@nil N)) st en = None).
      { unfold getrange_bounds. destruct ((st <? 0) && (en <? 0) && (en <? st)); [reflexivity|]. cbn [lenZ length Z.of_nat].
        match goal with |- (if (0 =? 0) || ?x then _ else _) = _ => replace ((0 =? 0) || x) with true by reflexivity end. reflexivity. }
      rewrite E. reflexivity.
  Qed.

  (* ---------- MGET, HMGET: replies in request order ---------- *)
  Definition all_strings_or_missing (d : db) (keys : list bytes) : Prop :=
    Forall (fun k => match aget d k with Some (VStr _) | None => True | _ => False end) keys.

  Lemma get_each_strings d : forall keys acc evs, all_strings_or_missing d keys ->
    get_each db dhandle c HGet keys {| e_hs := d; e_evs := evs |} acc =
    (inr (rev acc ++ map (fun k => Some (match aget d k with Some (VStr v) => bulk v | _ => nil_msg end)) keys),
     {| e_hs := d; e_evs := rev (map (fun k => EvCall (cs_db c) (cs_auth c) (HGet k) (snd (dprim d (HGet k)))) keys) ++ evs |}).
  Proof.
    induction keys as [|k keys IH]; intros acc evs Hk.
    - cbn [get_each map rev app]. rewrite app_nil_r. reflexivity.
    - inversion Hk as [|? ? Hk1 Hk2]; subst. cbn [get_each]. unfold Exec.call, dhandle. cbn [e_hs e_evs].
      destruct (aget d k) as [[v|h|l|s|z]|] eqn:Ek; try contradiction; cbn [dprim]; rewrite Ek; cbn [hr_err hr_msg r_bulk r_nil ok hr_ok];
        rewrite (IH _ _ Hk2); cbn [map rev]; rewrite <- !app_assoc; cbn [app dprim]; rewrite Ek; reflexivity.
  Qed.

  Lemma all_some_somes {A} (l : list A) : all_some (map Some l) = Some l.
  Proof. induction l as [|x l IH]; [reflexivity|]. cbn [map all_some]. rewrite IH. reflexivity. Qed.

  Theorem mget_spec d keys : keys <> [] -> all_strings_or_missing d keys ->
    run (X x_MGET) c (map bulk keys) d =
    (d, x_ok (RArr (map (fun k => match aget d k with Some (VStr v) => bulk v | _ => nil_msg end) keys))).
  Proof.
    intros Hne Hk. unfold run, x_MGET. rewrite strs1_bulks by (destruct keys; [congruence|reflexivity]).
    rewrite (get_each_strings d keys [] [] Hk). cbn [rev app collect]. rewrite <- map_map with (g := Some). rewrite all_some_somes. reflexivity.
  Qed.

  (* ---------- SCARD, SISMEMBER, ZCARD, HLEN, HKEYS, HVALS ---------- *)
  Lemma sismember_loop_mem s m : sismember_loop (map bulk s) m = mem m s.
  Proof.
    induction s as [|x s IH]; [reflexivity|]. cbn [map sismember_loop bulk msg_string mem].
    rewrite (bytes_eqb_sym x m). destruct (bytes_eqb m x); [reflexivity|exact IH].
  Qed.

  Theorem scard_spec d k :
    run (X x_SCARD) c [bulk k] d =
    (d, match aget d k with
        | Some (VSet s) => x_ok (int_msg (lenZ s))
        | None => x_ok (int_msg 0)
        | Some _ => {| x_msg := None; x_err := x_err (x_of wrongtype) |}
        end).
  Proof.
    unfold run, x_SCARD, Exec.call, dhandle, count_reply. cbn [key1 next_string bulk msg_string e_hs e_evs dprim].
    destruct (aget d k) as [[v|h|l|s|z]|]; cbn [hr_err hr_msg r_arr ok hr_ok wrongtype err]; try reflexivity.
    unfold lenZ. rewrite map_length. reflexivity.
  Qed.

  Theorem sismember_spec d k m :
    run (X x_SISMEMBER) c [bulk k; bulk m] d =
    (d, match aget d k with
        | Some (VSet s) => x_ok (int_msg (if mem m s then 1 else 0))
        | None => x_ok (int_msg 0)
        | Some _ => {| x_msg := None; x_err := x_err (x_of wrongtype) |}
        end).
  Proof.
    unfold run, x_SISMEMBER, Exec.call, dhandle. cbn [key1 next_string bulk msg_string e_hs e_evs dprim].
    destruct (aget d k) as [[v|h|l|s|z]|]; cbn [hr_err hr_msg r_arr ok hr_ok wrongtype err]; try reflexivity.
    rewrite sismember_loop_mem. reflexivity.
  Qed.

  Lemma hkeys_pairs h : hkeys_loop (flat_map (fun fv : bytes * bytes => [bulk (fst fv); bulk (snd fv)]) h) = map fst h.
  Proof. induction h as [|[f v] h IH]; [reflexivity|]. cbn [flat_map app hkeys_loop bulk msg_string fst snd map]. rewrite IH. reflexivity. Qed.
  Lemma hvals_pairs h : hvals_loop (flat_map (fun fv : bytes * bytes => [bulk (fst fv); bulk (snd fv)]) h) = map snd h.
  Proof. induction h as [|[f v] h IH]; [reflexivity|]. cbn [flat_map app hvals_loop bulk msg_string fst snd map]. rewrite IH. reflexivity. Qed.

  (* HKEYS and HVALS list the fields and the values of the same pairs, in the same order; HLEN counts them *)
  Theorem hkeys_hvals_hlen_spec d k h : aget d k = Some (VHash h) ->
    run (X x_HKEYS) c [bulk k] d = (d, x_ok (RArr (map bulk (map fst h)))) /\
    run (X x_HVALS) c [bulk k] d = (d, x_ok (RArr (map bulk (map snd h)))) /\
    run (X x_HLEN) c [bulk k] d = (d, x_ok (int_msg (lenZ h))).
  Proof.
    intros Hk. unfold run, x_HLEN, x_HKEYS, x_HVALS, hgetall_map, nested, x_HGETALL, x_key_only, Exec.pass, Exec.call, dhandle. rewrite Hau.
    cbn [key1 next_string bulk msg_string Exec.emit e_hs e_evs dprim]. rewrite Hk.
    cbn [hr_err hr_msg ok hr_ok x_of x_err x_msg Exec.emit e_hs e_evs]. rewrite hkeys_pairs, hvals_pairs.
    repeat split; try reflexivity. cbn [x_ok x_msg x_err]. unfold lenZ. rewrite !map_length. reflexivity.
  Qed.

  Theorem hkeys_missing d k : aget d k = None ->
    run (X x_HKEYS) c [bulk k] d = (d, x_ok (RArr [])) /\ run (X x_HVALS) c [bulk k] d = (d, x_ok (RArr [])) /\
    run (X x_HLEN) c [bulk k] d = (d, x_ok (int_msg 0)).
  Proof.
    intros Hk. unfold run, x_HLEN, x_HKEYS, x_HVALS, hgetall_map, nested, x_HGETALL, x_key_only, Exec.pass, Exec.call, dhandle. rewrite Hau.
    cbn [key1 next_string bulk msg_string Exec.emit e_hs e_evs dprim]. rewrite Hk. repeat split; reflexivity.
  Qed.

  Theorem hexists_hstrlen_spec d k f :
    run (X x_HEXISTS) c [bulk k; bulk f] d =
    (d, match aget d k with
        | Some (VHash h) => x_ok (int_msg (if ahas h f then 1 else 0))
        | None => x_ok (int_msg 0)
        | Some _ => {| x_msg := None; x_err := x_err (x_of wrongtype) |}
        end) /\
    run (X x_HSTRLEN) c [bulk k; bulk f] d =
    (d, match aget d k with
        | Some (VHash h) => x_ok (int_msg (match aget h f with Some v => lenZ v | None => 0 end))
        | None => x_ok (int_msg 0)
        | Some _ => {| x_msg := None; x_err := x_err (x_of wrongtype) |}
        end).
  Proof.
    unfold run, x_HEXISTS, x_HSTRLEN, nested, x_HGET, x_key_str, Exec.pass, Exec.call, dhandle, ahas. rewrite Hau.
    cbn [key1 next_string bulk msg_string Exec.emit e_hs e_evs dprim].
    destruct (aget d k) as [[v|h|l|s|z]|]; try (split; reflexivity).
    destruct (aget h f); split; reflexivity.
  Qed.

  (* ---------- ZCARD ---------- *)
  Lemma slice_full {A} (l : list A) : slice l (lenZ l) 0 (-1) = l.
  Proof.
    unfold slice, norm_range, lenZ. cbn [Z.ltb Z.compare]. replace (Z.of_nat (length l) + -1) with (Z.of_nat (length l) - 1) by lia.
    destruct (Z.leb_spec (Z.of_nat (length l)) (Z.of_nat (length l) - 1)); [lia|].
    destruct l as [|x l]; [reflexivity|].
    destruct (Z.ltb_spec (Z.of_nat (length (x :: l)) - 1) 0); [cbn [length] in *; lia|].
    destruct (Z.leb_spec (Z.of_nat (length (x :: l))) 0); [cbn [length] in *; lia|]. cbn [orb skipn Z.to_nat].
    replace (Z.to_nat (Z.of_nat (length (x :: l)) - 1 - 0 + 1)) with (length (x :: l)) by lia. apply firstn_all.
  Qed.

  Lemma limit_all {A} (l : list A) : limit 0 (-1) l = l.
  Proof.
    unfold limit. cbn [Z.ltb Z.compare]. replace (Z.min 0 (lenZ l)) with 0 by (unfold lenZ; lia). reflexivity.
  Qed.

  Theorem zcard_spec d k :
    run (X x_ZCARD) c [bulk k] d =
    (d, match aget d k with
        | Some (VZSet z) => x_ok (int_msg (lenZ z))
        | None => x_ok (int_msg 0)
        | Some _ => {| x_msg := None; x_err := x_err (x_of wrongtype) |}
        end).
  Proof.
    unfold run, x_ZCARD, Exec.call, dhandle, count_reply. cbn [key1 next_string bulk msg_string e_hs e_evs dprim].
    destruct (aget d k) as [[v|h|l|s|z]|]; cbn [hr_err hr_msg ok hr_ok wrongtype err zreply default_zrange_opt zr_rev zr_withscores zr_offset zr_count]; try reflexivity.
    rewrite slice_full, limit_all. cbn [e_hs]. f_equal. f_equal. f_equal. unfold lenZ. f_equal. clear. induction z as [|e z IHz]; [reflexivity|]. cbn [flat_map app length]. rewrite IHz. reflexivity.
  Qed.

  (* ---------- MSETNX: all or nothing ---------- *)
  Lemma msetnx_probe_all_missing (d : db) : forall (l : list (bytes * bytes)) evs,
    Forall (fun kv => aget d (fst kv) = None) l ->
    exists evs', msetnx_probe db dhandle c l {| e_hs := d; e_evs := evs |} = (None, {| e_hs := d; e_evs := evs' |}).
  Proof.
    induction l as [|[k v] l IH]; intros evs Hl; [eexists; reflexivity|].
    inversion Hl as [|? ? Hk Hr]; subst. cbn [fst] in Hk. cbn [msetnx_probe]. unfold Exec.call, dhandle. cbn [e_hs e_evs dprim]. rewrite Hk.
    cbn [hr_err hr_msg r_nil ok hr_ok msg_is_nil nil_msg]. apply IH; exact Hr.
  Qed.

  Lemma msetnx_probe_exists (d : db) : forall (l : list (bytes * bytes)) evs,
    Forall (fun kv => match aget d (fst kv) with Some (VStr _) | None => True | _ => False end) l ->
    Exists (fun kv => aget d (fst kv) <> None) l ->
    exists evs', msetnx_probe db dhandle c l {| e_hs := d; e_evs := evs |} = (Some (x_ok (int_msg 0)), {| e_hs := d; e_evs := evs' |}).
  Proof.
    induction l as [|[k v] l IH]; intros evs Hl Hex; [inversion Hex|].
    inversion Hl as [|? ? Hk Hr]; subst. cbn [fst] in Hk. cbn [msetnx_probe]. unfold Exec.call, dhandle. cbn [e_hs e_evs dprim].
    destruct (aget d k) as [[sv|h|li|s|z]|] eqn:Ek; try contradiction; cbn [hr_err hr_msg r_nil r_bulk ok hr_ok msg_is_nil nil_msg bulk].
    - eexists; reflexivity.
    - apply IH; [exact Hr|]. inversion Hex as [? ? H0|? ? H0]; subst; [cbn [fst] in H0; congruence|exact H0].
  Qed.

  (* the SETNX-style stores of MSETNX after a successful probe: every key of the (duplicate-free) map is set *)
  Lemma set_each_nx : forall (l : list (bytes * bytes)) (d : db) evs,
    NoDup (map fst l) -> Forall (fun kv => aget d (fst kv) = None) l ->
    exists evs', set_each db dhandle c (fun k v => HSet k v (with_flags true false 0)) l {| e_hs := d; e_evs := evs |} =
                 (None, {| e_hs := fold_left (fun m kv => aset m (fst kv) (VStr (snd kv))) l d; e_evs := evs' |}).
  Proof.
    induction l as [|[k v] l IH]; intros d evs Hnd Hl; [eexists; reflexivity|].
    inversion Hl as [|? ? Hk Hr]; subst. cbn [fst] in Hk. cbn [map fst] in Hnd. inversion Hnd as [|? ? Hni Hnd']; subst.
    cbn [set_each]. unfold Exec.call, dhandle. cbn [e_hs e_evs dprim with_flags so_nx so_xx so_get andb negb]. unfold ahas. rewrite Hk.
    cbn [hr_err r_int ok hr_ok fold_left fst snd].
    apply IH; [exact Hnd'|].
    apply Forall_forall. intros [k2 v2] Hin. cbn [fst]. rewrite aget_aset_other.
    - rewrite Forall_forall in Hr. apply (Hr (k2, v2) Hin).
    - destruct (bytes_eqb k2 k) eqn:E; [|reflexivity]. apply bytes_eqb_eq in E. subst k2. exfalso. apply Hni.
      apply in_map_iff. exists (k, v2). split; [reflexivity|exact Hin].
  Qed.

  Lemma map_set_fst_nodup : forall (m : list (bytes * bytes)) k v, NoDup (map fst m) -> NoDup (map fst (map_set m k v)).
  Proof.
    induction m as [|[k' v'] m IH]; intros k v H; cbn [map_set].
    - cbn. constructor; [intros []|constructor].
    - destruct (bytes_eqb k k') eqn:E; cbn [map fst]; [exact H|].
      inversion H as [|? ? Hni Hnd]; subst. constructor; [|apply IH; exact Hnd].
      intros Hin. apply Hni. clear -Hin E. induction m as [|[k2 v2] m IHm]; cbn [map_set map fst] in *.
      + destruct Hin as [Hin|[]]. subst. rewrite bytes_eqb_refl in E. discriminate.
      + destruct (bytes_eqb k k2) eqn:E2; cbn [map fst] in Hin; [exact Hin|]. destruct Hin as [Hin|Hin]; [left; exact Hin|right; apply IHm; exact Hin].
  Qed.

  Lemma map_of_pairs_nodup l : NoDup (map fst (map_of_pairs l)).
  Proof.
    unfold map_of_pairs. assert (G : forall m, NoDup (map fst m) -> NoDup (map fst (fold_left (fun m kv => map_set m (fst kv) (snd kv)) l m))).
    { induction l as [|[k v] l IH]; intros m Hm; [exact Hm|]. cbn [fold_left]. apply IH. apply map_set_fst_nodup; exact Hm. }
    apply G. constructor.
  Qed.

  (* MSETNX k1 v1 ... : if no key exists, every key is set (to the last value given for it) and the reply is 1;
     if some key exists (all of them strings or missing) nothing at all is stored and the reply is 0 *)
  Theorem msetnx_spec (d : db) (pairs : list (bytes * bytes)) : pairs <> [] ->
    let args := flat_map (fun kv => [bulk (fst kv); bulk (snd kv)]) pairs in
    let m := map_of_pairs pairs in
    (Forall (fun kv => aget d (fst kv) = None) m ->
       run (X x_MSETNX) c args d = (fold_left (fun dd kv => aset dd (fst kv) (VStr (snd kv))) m d, x_ok (int_msg 1))) /\
    (Forall (fun kv => match aget d (fst kv) with Some (VStr _) | None => True | _ => False end) m ->
     Exists (fun kv => aget d (fst kv) <> None) m ->
       run (X x_MSETNX) c args d = (d, x_ok (int_msg 0))).
  Proof.
    intros Hne args m.
    assert (Hnp : next_pairs args = (inl pairs, [])).
    { subst args. clear. induction pairs as [|[k v] l IH]; [reflexivity|]. cbn [flat_map app fst snd next_pairs bulk msg_string]. fold bulk.
      change (RBulk (Some k) :: RBulk (Some v) :: flat_map (fun kv : bytes * bytes => [bulk (fst kv); bulk (snd kv)]) l) with
             (bulk k :: bulk v :: flat_map (fun kv : bytes * bytes => [bulk (fst kv); bulk (snd kv)]) l).
      cbn [next_pairs bulk msg_string]. fold bulk. rewrite IH. reflexivity. }
    assert (Hm1 : next_map1 args = (inl m, [])).
    { unfold next_map1. rewrite Hnp. destruct pairs; [congruence|reflexivity]. }
    split.
    - intros Hmiss. unfold run, x_MSETNX. rewrite Hm1.
      destruct (msetnx_probe_all_missing d m [] Hmiss) as (evs1 & E1). rewrite E1.
      destruct (set_each_nx m d evs1 (map_of_pairs_nodup pairs) Hmiss) as (evs2 & E2). rewrite E2. reflexivity.
    - intros Hty Hex. unfold run, x_MSETNX. rewrite Hm1.
      destruct (msetnx_probe_exists d m [] Hty Hex) as (evs1 & E1). rewrite E1. reflexivity.
  Qed.

  (* ---------- ZREVRANGE: exactly the reverse-order slice, member/score pairs intact ---------- *)
  Lemma norm_range_reflect len st en : 0 <= len ->
    match norm_range len st en with
    | Some (lo, hi) => norm_range len (- en - 1) (- st - 1) = Some (len - 1 - hi, len - 1 - lo) /\ 0 <= lo /\ lo <= hi /\ hi < len
    | None => norm_range len (- en - 1) (- st - 1) = None
    end.
  Proof.
    intros Hl. unfold norm_range.
    destruct (Z.ltb_spec st 0) as [Hs|Hs], (Z.ltb_spec en 0) as [He|He];
    destruct (Z.ltb_spec (- en - 1) 0) as [He'|He'], (Z.ltb_spec (- st - 1) 0) as [Hs'|Hs']; try lia;
    repeat match goal with
           | |- context [if ?a <? ?b then _ else _] => destruct (Z.ltb_spec a b)
           | |- context [if ?a <=? ?b then _ else _] => destruct (Z.leb_spec a b)
           | |- context [(?a <? ?b) || _] => destruct (Z.ltb_spec a b); cbn [orb]
           | |- context [(?a <=? ?b)] => destruct (Z.leb_spec a b); cbn [orb]
           end; try lia; try (repeat split; try lia; f_equal; f_equal; lia).
  Qed.

  Lemma rev_firstn_skipn {A} (l : list A) : forall a n, (a + n <= length l)%nat ->
    rev (firstn n (skipn a l)) = firstn n (skipn (length l - a - n) (rev l)).
  Proof.
    intros a n H.
    assert (D : l = firstn a l ++ firstn n (skipn a l) ++ skipn n (skipn a l)) by (rewrite firstn_skipn, firstn_skipn; reflexivity).
    set (l1 := firstn a l) in *. set (l2 := firstn n (skipn a l)) in *. set (l3 := skipn n (skipn a l)) in *.
    assert (L1 : length l1 = a) by (unfold l1; rewrite firstn_length; lia).
    assert (L2 : length l2 = n) by (unfold l2; rewrite firstn_length, skipn_length; lia).
    assert (L3 : length l3 = (length l - a - n)%nat) by (unfold l3; rewrite !skipn_length; lia).
    rewrite D at 2. rewrite !rev_app_distr, <- !app_assoc.
    replace (length l - a - n)%nat with (length (rev l3)) by (rewrite rev_length; exact L3).
    rewrite skipn_app, skipn_all, Nat.sub_diag. cbn [app skipn].
    rewrite firstn_app. replace (n - length (rev l2))%nat with 0%nat by (rewrite rev_length; lia). cbn [firstn]. rewrite app_nil_r.
    rewrite firstn_all2 by (rewrite rev_length; lia). reflexivity.
  Qed.

  Lemma slice_rev {A} (l : list A) st en : rev (slice l (lenZ l) (- en - 1) (- st - 1)) = slice (rev l) (lenZ l) st en.
  Proof.
    unfold slice. pose proof (norm_range_reflect (lenZ l) st en) as R. specialize (R ltac:(unfold lenZ; lia)).
    destruct (norm_range (lenZ l) st en) as [[lo hi]|].
    - destruct R as (R & H1 & H2 & H3). rewrite R. unfold lenZ in *.
      rewrite rev_firstn_skipn by lia. f_equal; [lia|]. f_equal. lia.
    - rewrite R. reflexivity.
  Qed.

  Lemma groups_flat {A B0} (f : A -> list B0) step : (0 < step)%nat -> (forall x, length (f x) = step) ->
    forall z fuel, (length (flat_map f z) <= fuel)%nat -> groups fuel step (flat_map f z) = map f z.
  Proof.
    intros Hs Hf. induction z as [|x z IH]; intros fuel Hfu.
    - destruct fuel; reflexivity.
    - cbn [flat_map] in *. rewrite app_length, Hf in Hfu. destruct fuel as [|fuel]; [lia|].
      cbn [groups]. destruct (f x ++ flat_map f z) eqn:E.
      + apply (f_equal (@length _)) in E. rewrite app_length, Hf in E. cbn in E. lia.
      + rewrite <- E. rewrite firstn_app, firstn_all2 by (rewrite Hf; lia). rewrite Hf, Nat.sub_diag. cbn [firstn]. rewrite app_nil_r.
        rewrite skipn_app, skipn_all2 by (rewrite Hf; lia). rewrite Hf, Nat.sub_diag. cbn [skipn app map]. f_equal. apply IH. lia.
  Qed.

  Lemma reverse_by_flat {A B0} (f : A -> list B0) step : (0 < step)%nat -> (forall x, length (f x) = step) ->
    forall z, reverse_by step (flat_map f z) = flat_map f (rev z).
  Proof.
    intros Hs Hf z. unfold reverse_by. destruct step as [|st]; [lia|].
    assert (L : length (flat_map f z) = (length z * S st)%nat).
    { induction z as [|x z IH]; [reflexivity|]. cbn [flat_map length]. rewrite app_length, Hf, IH. lia. }
    rewrite L. rewrite Nat.mod_mul by lia. cbn [skipn firstn]. rewrite app_nil_r.
    rewrite <- L. rewrite (groups_flat f (S st) Hs Hf z (length (flat_map f z)) (Nat.le_refl _)). rewrite <- map_rev. rewrite <- flat_map_concat_map. reflexivity.
  Qed.

  (* ZREVRANGE key start stop [WITHSCORES] over the reference primitives = the reference's ZRANGE key start stop REV:
     the slice [start, stop] of the members in DESCENDING order, each member followed by its own score *)
  Theorem zrevrange_spec (d : db) k st en (ws : bool) z : in64 st = true -> in64 en = true -> aget d k = Some (VZSet z) ->
    run (X x_ZREVRANGE) c ([bulk k; bulk (itoa st); bulk (itoa en)] ++ (if ws then [bulk (B"WITHSCORES")] else [])) d =
    (d, x_of (zreply ws (slice (rev z) (lenZ z) st en))).
  Proof.
    intros H1 H2 Hk. unfold run, x_ZREVRANGE. destruct ws; cbn [app key1 next_string bulk msg_string]; unfold int1, next_integer, msg_integer, bulk;
      rewrite (atoi_itoa st H1), (atoi_itoa en H2).
    - match goal with |- context [next_range_opts ?l ?o] =>
        replace (next_range_opts l o) with (Some {| zr_byscore := false; zr_bylex := false; zr_rev := false; zr_withscores := true; zr_minex := false; zr_maxex := false; zr_offset := 0; zr_count := -1 |}) by reflexivity end.
      unfold Exec.call, dhandle. cbn [e_hs e_evs dprim]. rewrite Hk. cbn [zr_rev zr_withscores zr_offset zr_count].
      rewrite limit_all. unfold rev_reply, zreply. cbn [hr_err hr_msg ok hr_ok e_hs x_of x_msg x_err].
      rewrite <- slice_rev.
      rewrite (reverse_by_flat (fun e : bytes * fl => [bulk (fst e); bulk (fl_text (snd e))]) 2) by (auto; lia). reflexivity.
    - match goal with |- context [next_range_opts ?l ?o] =>
        replace (next_range_opts l o) with (Some default_zrange_opt) by reflexivity end.
      unfold Exec.call, dhandle. cbn [e_hs e_evs dprim]. rewrite Hk. cbn [default_zrange_opt zr_rev zr_withscores zr_offset zr_count].
      rewrite limit_all. unfold rev_reply, zreply. cbn [hr_err hr_msg ok hr_ok e_hs x_of x_msg x_err].
      rewrite <- slice_rev.
      rewrite (reverse_by_flat (fun e : bytes * fl => [bulk (fst e)]) 1) by (auto; lia). reflexivity.
  Qed.
End Sugar.
