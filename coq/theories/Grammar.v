(* Grammar.v — an independent, typed grammar of the command surface that maps onto ONE handler operation
   (C05): what a well-formed request is (`req`, `valid`), how a client writes it (`print`, with any letter case
   for command and option words, any accepted numeral for numbers) and which handler call it must produce
   (`expect`).  The C05 theorem is  decode (print r) = expect r  for every valid r. *)
From Coq Require Import String QArith.
From GR Require Import Base Resp Handler Exec.
Open Scope Z_scope.

(* a word as the client typed it: any bytes whose ASCII upper-casing is the keyword *)
Record word := { w_txt : bytes; w_kw : string }.
Definition word_ok (w : word) : bool := bytes_eqb (upper (w_txt w)) (bytes_of_string (w_kw w)).

(* a numeral as the client typed it, with the integer it denotes *)
Record inttok := { it_txt : bytes; it_val : Z }.
Definition inttok_ok (t : inttok) : bool := match atoi (it_txt t) with Some z => z =? it_val t | None => false end.

Record fltok := { ft_txt : bytes; ft_val : fl }.
Definition fl_eqb (a b : fl) : bool :=
  match a, b with
  | FInf x, FInf y => Bool.eqb x y
  | FNum p, FNum q => Qeq_bool p q && (Z.eqb (Qnum p) (Qnum q)) && (Pos.eqb (Qden p) (Qden q))
  | _, _ => false
  end.
Definition fltok_ok (t : fltok) : bool := match parse_float (ft_txt t) with Some x => fl_eqb x (ft_val t) | None => false end.

(* range bound of ZRANGE ... BYSCORE / ZRANGEBYSCORE: a float numeral, optionally exclusive *)
Record rstok := { rs_tok : fltok; rs_ex : bool }.
Definition rstok_txt (t : rstok) : bytes := if rs_ex t then 40%N :: ft_txt (rs_tok t) else ft_txt (rs_tok t).
Definition rstok_ok (t : rstok) : bool :=
  fltok_ok (rs_tok t) && (match ft_txt (rs_tok t) with c :: _ => negb (c =? 40)%N | [] => true end).

(* ----- option words ----- *)
Inductive set_word :=
| SwNX (w : word) | SwXX (w : word) | SwKEEPTTL (w : word) | SwGET (w : word)
| SwEX (w : word) (n : inttok) | SwPX (w : word) (n : inttok) | SwEXAT (w : word) (n : inttok) | SwPXAT (w : word) (n : inttok).

Definition print_set_word (x : set_word) : list bytes :=
  match x with
  | SwNX w | SwXX w | SwKEEPTTL w | SwGET w => [w_txt w]
  | SwEX w n | SwPX w n | SwEXAT w n | SwPXAT w n => [w_txt w; it_txt n]
  end.

Definition set_word_ok (x : set_word) : bool :=
  match x with
  | SwNX w => word_ok w && String.eqb (w_kw w) "NX"
  | SwXX w => word_ok w && String.eqb (w_kw w) "XX"
  | SwKEEPTTL w => word_ok w && String.eqb (w_kw w) "KEEPTTL"
  | SwGET w => word_ok w && String.eqb (w_kw w) "GET"
  | SwEX w n => word_ok w && String.eqb (w_kw w) "EX" && inttok_ok n && (1 <=? it_val n) && (it_val n <=? SEC_MAX)
  | SwPX w n => word_ok w && String.eqb (w_kw w) "PX" && inttok_ok n && (1 <=? it_val n) && (it_val n <=? MSEC_MAX)
  | SwEXAT w n => word_ok w && String.eqb (w_kw w) "EXAT" && inttok_ok n && (1 <=? it_val n) && (it_val n <=? UNIX_MAX)
  | SwPXAT w n => word_ok w && String.eqb (w_kw w) "PXAT" && inttok_ok n && (1 <=? it_val n)
  end.

Definition is_cond (x : set_word) : bool := match x with SwNX _ | SwXX _ => true | _ => false end.
Definition is_expiry (x : set_word) : bool := match x with SwEX _ _ | SwPX _ _ | SwEXAT _ _ | SwPXAT _ _ => true | _ => false end.
Definition is_keepttl (x : set_word) : bool := match x with SwKEEPTTL _ => true | _ => false end.
Definition is_get (x : set_word) : bool := match x with SwGET _ => true | _ => false end.
Definition count_if {A} (f : A -> bool) (l : list A) : nat := List.length (filter f l).

(* SET options: any order; at most one of NX/XX, at most one expiry, KEEPTTL and GET at most once *)
Definition set_words_ok (l : list set_word) : bool :=
  forallb set_word_ok l && (count_if is_cond l <=? 1)%nat && (count_if is_expiry l <=? 1)%nat
  && (count_if is_keepttl l <=? 1)%nat && (count_if is_get l <=? 1)%nat.

Definition apply_set_word (o : set_opt) (x : set_word) : set_opt :=
  match x with
  | SwNX _ => {| so_ex := so_ex o; so_px := so_px o; so_exat := so_exat o; so_pxat := so_pxat o; so_nx := true; so_xx := so_xx o; so_keepttl := so_keepttl o; so_get := so_get o |}
  | SwXX _ => {| so_ex := so_ex o; so_px := so_px o; so_exat := so_exat o; so_pxat := so_pxat o; so_nx := so_nx o; so_xx := true; so_keepttl := so_keepttl o; so_get := so_get o |}
  | SwKEEPTTL _ => {| so_ex := so_ex o; so_px := so_px o; so_exat := so_exat o; so_pxat := so_pxat o; so_nx := so_nx o; so_xx := so_xx o; so_keepttl := true; so_get := so_get o |}
  | SwGET _ => {| so_ex := so_ex o; so_px := so_px o; so_exat := so_exat o; so_pxat := so_pxat o; so_nx := so_nx o; so_xx := so_xx o; so_keepttl := so_keepttl o; so_get := true |}
  | SwEX _ n => {| so_ex := it_val n * 1000000000; so_px := so_px o; so_exat := so_exat o; so_pxat := so_pxat o; so_nx := so_nx o; so_xx := so_xx o; so_keepttl := so_keepttl o; so_get := so_get o |}
  | SwPX _ n => {| so_ex := so_ex o; so_px := it_val n * 1000000; so_exat := so_exat o; so_pxat := so_pxat o; so_nx := so_nx o; so_xx := so_xx o; so_keepttl := so_keepttl o; so_get := so_get o |}
  | SwEXAT _ n => {| so_ex := so_ex o; so_px := so_px o; so_exat := Some (it_val n * 1000); so_pxat := so_pxat o; so_nx := so_nx o; so_xx := so_xx o; so_keepttl := so_keepttl o; so_get := so_get o |}
  | SwPXAT _ n => {| so_ex := so_ex o; so_px := so_px o; so_exat := so_exat o; so_pxat := Some (it_val n); so_nx := so_nx o; so_xx := so_xx o; so_keepttl := so_keepttl o; so_get := so_get o |}
  end.
Definition set_opt_of (l : list set_word) : set_opt := fold_left apply_set_word l default_set_opt.

Inductive zr_word := ZwBYSCORE (w : word) | ZwBYLEX (w : word) | ZwREV (w : word) | ZwWITHSCORES (w : word) | ZwLIMIT (w : word) (off cnt : inttok).
Definition print_zr_word (x : zr_word) : list bytes :=
  match x with
  | ZwBYSCORE w | ZwBYLEX w | ZwREV w | ZwWITHSCORES w => [w_txt w]
  | ZwLIMIT w a b => [w_txt w; it_txt a; it_txt b]
  end.
Definition zr_word_ok (x : zr_word) : bool :=
  match x with
  | ZwBYSCORE w => word_ok w && String.eqb (w_kw w) "BYSCORE"
  | ZwBYLEX w => word_ok w && String.eqb (w_kw w) "BYLEX"
  | ZwREV w => word_ok w && String.eqb (w_kw w) "REV"
  | ZwWITHSCORES w => word_ok w && String.eqb (w_kw w) "WITHSCORES"
  | ZwLIMIT w a b => word_ok w && String.eqb (w_kw w) "LIMIT" && inttok_ok a && inttok_ok b
  end.
Definition apply_zr_word (o : zrange_opt) (x : zr_word) : zrange_opt :=
  match x with
  | ZwBYSCORE _ => {| zr_byscore := true; zr_bylex := zr_bylex o; zr_rev := zr_rev o; zr_withscores := zr_withscores o; zr_minex := zr_minex o; zr_maxex := zr_maxex o; zr_offset := zr_offset o; zr_count := zr_count o |}
  | ZwBYLEX _ => {| zr_byscore := zr_byscore o; zr_bylex := true; zr_rev := zr_rev o; zr_withscores := zr_withscores o; zr_minex := zr_minex o; zr_maxex := zr_maxex o; zr_offset := zr_offset o; zr_count := zr_count o |}
  | ZwREV _ => {| zr_byscore := zr_byscore o; zr_bylex := zr_bylex o; zr_rev := true; zr_withscores := zr_withscores o; zr_minex := zr_minex o; zr_maxex := zr_maxex o; zr_offset := zr_offset o; zr_count := zr_count o |}
  | ZwWITHSCORES _ => {| zr_byscore := zr_byscore o; zr_bylex := zr_bylex o; zr_rev := zr_rev o; zr_withscores := true; zr_minex := zr_minex o; zr_maxex := zr_maxex o; zr_offset := zr_offset o; zr_count := zr_count o |}
  | ZwLIMIT _ a b => {| zr_byscore := zr_byscore o; zr_bylex := zr_bylex o; zr_rev := zr_rev o; zr_withscores := zr_withscores o; zr_minex := zr_minex o; zr_maxex := zr_maxex o; zr_offset := it_val a; zr_count := it_val b |}
  end.
Definition zr_opt_of (l : list zr_word) : zrange_opt := fold_left apply_zr_word l default_zrange_opt.
Definition has_byscore (l : list zr_word) : bool := existsb (fun x => match x with ZwBYSCORE _ => true | _ => false end) l.

Inductive za_word := ZaNX (w : word) | ZaXX (w : word) | ZaGT (w : word) | ZaLT (w : word) | ZaCH (w : word) | ZaINCR (w : word).
Definition za_txt (x : za_word) : bytes := match x with ZaNX w | ZaXX w | ZaGT w | ZaLT w | ZaCH w | ZaINCR w => w_txt w end.
Definition za_word_ok (x : za_word) : bool :=
  match x with
  | ZaNX w => word_ok w && String.eqb (w_kw w) "NX" | ZaXX w => word_ok w && String.eqb (w_kw w) "XX"
  | ZaGT w => word_ok w && String.eqb (w_kw w) "GT" | ZaLT w => word_ok w && String.eqb (w_kw w) "LT"
  | ZaCH w => word_ok w && String.eqb (w_kw w) "CH" | ZaINCR w => word_ok w && String.eqb (w_kw w) "INCR"
  end.
Definition apply_za_word (o : zadd_opt) (x : za_word) : zadd_opt :=
  match x with
  | ZaNX _ => {| za_xx := za_xx o; za_nx := true; za_lt := za_lt o; za_gt := za_gt o; za_ch := za_ch o; za_incr := za_incr o |}
  | ZaXX _ => {| za_xx := true; za_nx := za_nx o; za_lt := za_lt o; za_gt := za_gt o; za_ch := za_ch o; za_incr := za_incr o |}
  | ZaGT _ => {| za_xx := za_xx o; za_nx := za_nx o; za_lt := za_lt o; za_gt := true; za_ch := za_ch o; za_incr := za_incr o |}
  | ZaLT _ => {| za_xx := za_xx o; za_nx := za_nx o; za_lt := true; za_gt := za_gt o; za_ch := za_ch o; za_incr := za_incr o |}
  | ZaCH _ => {| za_xx := za_xx o; za_nx := za_nx o; za_lt := za_lt o; za_gt := za_gt o; za_ch := true; za_incr := za_incr o |}
  | ZaINCR _ => {| za_xx := za_xx o; za_nx := za_nx o; za_lt := za_lt o; za_gt := za_gt o; za_ch := za_ch o; za_incr := true |}
  end.
Definition za_opt_of (l : list za_word) : zadd_opt := fold_left apply_za_word l default_zadd_opt.

Inductive sc_word := ScMATCH (w : word) (pat : bytes) | ScCOUNT (w : word) (n : inttok) | ScTYPE (w : word) (ty : bytes) (tyv : Z).
Definition print_sc_word (x : sc_word) : list bytes :=
  match x with ScMATCH w p => [w_txt w; p] | ScCOUNT w n => [w_txt w; it_txt n] | ScTYPE w t _ => [w_txt w; t] end.
Definition sc_word_ok (x : sc_word) : bool :=
  match x with
  | ScMATCH w _ => word_ok w && String.eqb (w_kw w) "MATCH"
  | ScCOUNT w n => word_ok w && String.eqb (w_kw w) "COUNT" && inttok_ok n
  | ScTYPE w t v => word_ok w && String.eqb (w_kw w) "TYPE" && (match scan_type_of t with Some z => z =? v | None => false end)
  end.

Inductive ex_word := ExNX (w : word) | ExXX (w : word) | ExGT (w : word) | ExLT (w : word).
Definition ex_txt (x : ex_word) : bytes := match x with ExNX w | ExXX w | ExGT w | ExLT w => w_txt w end.
Definition ex_word_ok (x : ex_word) : bool :=
  match x with
  | ExNX w => word_ok w && String.eqb (w_kw w) "NX" | ExXX w => word_ok w && String.eqb (w_kw w) "XX"
  | ExGT w => word_ok w && String.eqb (w_kw w) "GT" | ExLT w => word_ok w && String.eqb (w_kw w) "LT"
  end.
Definition expire_opt_of (t : exp_time) (x : option ex_word) : expire_opt :=
  match x with
  | None => {| ex_time := t; ex_nx := false; ex_xx := false; ex_gt := false; ex_lt := false |}
  | Some (ExNX _) => {| ex_time := t; ex_nx := true; ex_xx := false; ex_gt := false; ex_lt := false |}
  | Some (ExXX _) => {| ex_time := t; ex_nx := false; ex_xx := true; ex_gt := false; ex_lt := false |}
  | Some (ExGT _) => {| ex_time := t; ex_nx := false; ex_xx := false; ex_gt := true; ex_lt := false |}
  | Some (ExLT _) => {| ex_time := t; ex_nx := false; ex_xx := false; ex_gt := false; ex_lt := true |}
  end.

(* ----- requests: one constructor per command that maps onto one handler operation ----- *)
Inductive req :=
| QDel (ks : list bytes) | QExists (ks : list bytes)
| QKeys (p : bytes) | QType (k : bytes) | QTTL (k : bytes) | QGet (k : bytes) | QHGetAll (k : bytes) | QLLen (k : bytes) | QSMembers (k : bytes)
| QRename (k n : bytes) | QRenameNX (k n : bytes)
| QExpire (k : bytes) (ttl : inttok) (o : option ex_word) | QExpireAt (k : bytes) (ts : inttok) (o : option ex_word)
| QScan (cur : inttok) (ws : list sc_word)
| QSet (k v : bytes) (ws : list set_word) | QSetNX (k v : bytes) | QGetSet (k v : bytes) | QSetEX (k : bytes) (sec : inttok) (v : bytes)
| QHDel (k : bytes) (fs : list bytes) | QSAdd (k : bytes) (ms : list bytes) | QSRem (k : bytes) (ms : list bytes) | QZRem (k : bytes) (ms : list bytes)
| QLPush (k : bytes) (es : list bytes) | QLPushX (k : bytes) (es : list bytes) | QRPush (k : bytes) (es : list bytes) | QRPushX (k : bytes) (es : list bytes)
| QHGet (k f : bytes) | QZScore (k m : bytes) | QHSet (k f v : bytes) | QHSetNX (k f v : bytes)
| QLIndex (k : bytes) (i : inttok) | QLPop (k : bytes) (n : option inttok) | QRPop (k : bytes) (n : option inttok)
| QLRange (k : bytes) (a b : inttok)
| QZAdd (k : bytes) (ws : list za_word) (first : fltok * bytes) (more : list (fltok * bytes))
| QZIncrBy (k : bytes) (inc : fltok) (m : bytes)
| QZRangeIdx (k : bytes) (a b : inttok) (ws : list zr_word)            (* ZRANGE without BYSCORE *)
| QZRangeScore (k : bytes) (a b : rstok) (ws : list zr_word)           (* ZRANGE ... BYSCORE *)
| QZRangeByScore (k : bytes) (a b : rstok) (ws : list zr_word).

Definition name_of (r : req) : string :=
  match r with
  | QDel _ => "DEL" | QExists _ => "EXISTS" | QKeys _ => "KEYS" | QType _ => "TYPE" | QTTL _ => "TTL" | QGet _ => "GET"
  | QHGetAll _ => "HGETALL" | QLLen _ => "LLEN" | QSMembers _ => "SMEMBERS" | QRename _ _ => "RENAME" | QRenameNX _ _ => "RENAMENX"
  | QExpire _ _ _ => "EXPIRE" | QExpireAt _ _ _ => "EXPIREAT" | QScan _ _ => "SCAN" | QSet _ _ _ => "SET" | QSetNX _ _ => "SETNX"
  | QGetSet _ _ => "GETSET" | QSetEX _ _ _ => "SETEX" | QHDel _ _ => "HDEL" | QSAdd _ _ => "SADD" | QSRem _ _ => "SREM" | QZRem _ _ => "ZREM"
  | QLPush _ _ => "LPUSH" | QLPushX _ _ => "LPUSHX" | QRPush _ _ => "RPUSH" | QRPushX _ _ => "RPUSHX" | QHGet _ _ => "HGET"
  | QZScore _ _ => "ZSCORE" | QHSet _ _ _ => "HSET" | QHSetNX _ _ _ => "HSETNX" | QLIndex _ _ => "LINDEX" | QLPop _ _ => "LPOP"
  | QRPop _ _ => "RPOP" | QLRange _ _ _ => "LRANGE" | QZAdd _ _ _ _ => "ZADD" | QZIncrBy _ _ _ => "ZINCRBY"
  | QZRangeIdx _ _ _ _ => "ZRANGE" | QZRangeScore _ _ _ _ => "ZRANGE" | QZRangeByScore _ _ _ _ => "ZRANGEBYSCORE"
  end.

Definition ne {A} (l : list A) : bool := match l with [] => false | _ => true end.
Definition opt_ok {A} (f : A -> bool) (o : option A) : bool := match o with Some x => f x | None => true end.
(* a ZADD member may not look like an option word at the position where options are read: the FIRST score token
   must not upper-case to an option word (a score numeral never does) *)

(* the ZADD executor reads option words until the first token that is not one; that token is the first score *)
Definition is_za_kw (s : bytes) : bool := kw s "NX" || kw s "XX" || kw s "GT" || kw s "LT" || kw s "CH" || kw s "INCR".

Definition valid (r : req) : bool :=
  match r with
  | QDel ks | QExists ks => ne ks
  | QKeys _ | QType _ | QTTL _ | QGet _ | QHGetAll _ | QLLen _ | QSMembers _ | QRename _ _ | QRenameNX _ _
  | QSetNX _ _ | QGetSet _ _ | QHGet _ _ | QZScore _ _ | QHSet _ _ _ | QHSetNX _ _ _ => true
  | QExpire _ ttl o => inttok_ok ttl && (- SEC_MAX <=? it_val ttl) && (it_val ttl <=? SEC_MAX) && opt_ok ex_word_ok o
  | QExpireAt _ ts o => inttok_ok ts && (- UNIX_MAX <=? it_val ts) && (it_val ts <=? UNIX_MAX) && opt_ok ex_word_ok o
  | QScan cur ws => inttok_ok cur && forallb sc_word_ok ws
  | QSet _ _ ws => set_words_ok ws
  | QSetEX _ sec _ => inttok_ok sec && (1 <=? it_val sec) && (it_val sec <=? SEC_MAX)
  | QHDel _ l | QSAdd _ l | QSRem _ l | QZRem _ l | QLPush _ l | QLPushX _ l | QRPush _ l | QRPushX _ l => ne l
  | QLIndex _ i => inttok_ok i
  | QLPop _ n | QRPop _ n => opt_ok inttok_ok n
  | QLRange _ a b => inttok_ok a && inttok_ok b
  | QZAdd _ ws first more => forallb za_word_ok ws && fltok_ok (fst first) && negb (is_za_kw (ft_txt (fst first)))
                             && forallb (fun p => fltok_ok (fst p)) more
  | QZIncrBy _ inc _ => fltok_ok inc
  | QZRangeIdx _ a b ws => inttok_ok a && inttok_ok b && forallb zr_word_ok ws && negb (has_byscore ws)
  | QZRangeScore _ a b ws => rstok_ok a && rstok_ok b && forallb zr_word_ok ws && has_byscore ws
  | QZRangeByScore _ a b ws => rstok_ok a && rstok_ok b && forallb zr_word_ok ws
  end.

(* the arguments after the command name, as bulk strings *)
Definition print_args (r : req) : list bytes :=
  match r with
  | QDel ks | QExists ks => ks
  | QKeys k | QType k | QTTL k | QGet k | QHGetAll k | QLLen k | QSMembers k => [k]
  | QRename k n | QRenameNX k n => [k; n]
  | QExpire k t o | QExpireAt k t o => [k; it_txt t] ++ (match o with Some w => [ex_txt w] | None => [] end)
  | QScan cur ws => it_txt cur :: flat_map print_sc_word ws
  | QSet k v ws => [k; v] ++ flat_map print_set_word ws
  | QSetNX k v | QGetSet k v => [k; v]
  | QSetEX k sec v => [k; it_txt sec; v]
  | QHDel k l | QSAdd k l | QSRem k l | QZRem k l | QLPush k l | QLPushX k l | QRPush k l | QRPushX k l => k :: l
  | QHGet k f | QZScore k f => [k; f]
  | QHSet k f v | QHSetNX k f v => [k; f; v]
  | QLIndex k i => [k; it_txt i]
  | QLPop k n | QRPop k n => k :: (match n with Some t => [it_txt t] | None => [] end)
  | QLRange k a b => [k; it_txt a; it_txt b]
  | QZAdd k ws first more => k :: map za_txt ws ++ flat_map (fun p => [ft_txt (fst p); snd p]) (first :: more)
  | QZIncrBy k inc m => [k; ft_txt inc; m]
  | QZRangeIdx k a b ws => [k; it_txt a; it_txt b] ++ flat_map print_zr_word ws
  | QZRangeScore k a b ws | QZRangeByScore k a b ws => [k; rstok_txt a; rstok_txt b] ++ flat_map print_zr_word ws
  end.

Definition print (r : req) : args := map bulk (print_args r).

Section Expect.
  Variable regexp_src : bytes -> bytes.
  Definition apply_sc_word (o : scan_opt) (x : sc_word) : scan_opt :=
    match x with
    | ScMATCH _ p => {| sc_match := regexp_src p; sc_count := sc_count o; sc_type := sc_type o |}
    | ScCOUNT _ n => {| sc_match := sc_match o; sc_count := it_val n; sc_type := sc_type o |}
    | ScTYPE _ _ v => {| sc_match := sc_match o; sc_count := sc_count o; sc_type := v |}
    end.

  (* the handler call a valid request must produce *)
  Definition expect (r : req) : hcall :=
    match r with
    | QDel ks => HDel ks | QExists ks => HExists ks
    | QKeys k => HKeys k | QType k => HType k | QTTL k => HTTL k | QGet k => HGet k | QHGetAll k => HHGetAll k
    | QLLen k => HLLen k | QSMembers k => HSMembers k
    | QRename k n => HRename k n false | QRenameNX k n => HRename k n true
    | QExpire k t o => HExpire k (expire_opt_of (ExpRel (it_val t)) o)
    | QExpireAt k t o => HExpire k (expire_opt_of (ExpAbs (it_val t)) o)
    | QScan cur ws => HScan (it_val cur) (fold_left apply_sc_word ws {| sc_match := regexp_src [ch_star]; sc_count := 10; sc_type := 0 |})
    | QSet k v ws => HSet k v (set_opt_of ws)
    | QSetNX k v => HSet k v (with_flags true false 0)
    | QGetSet k v => HSet k v (with_flags false true 0)
    | QSetEX k sec v => HSet k v (with_flags false false (it_val sec * 1000000000))
    | QHDel k l => HHDel k l | QSAdd k l => HSAdd k l | QSRem k l => HSRem k l | QZRem k l => HZRem k l
    | QLPush k l => HLPush k l false | QLPushX k l => HLPush k l true | QRPush k l => HRPush k l false | QRPushX k l => HRPush k l true
    | QHGet k f => HHGet k f | QZScore k m => HZScore k m
    | QHSet k f v => HHSet k f v false | QHSetNX k f v => HHSet k f v true
    | QLIndex k i => HLIndex k (it_val i)
    | QLPop k n => HLPop k (match n with Some t => it_val t | None => 1 end)
    | QRPop k n => HRPop k (match n with Some t => it_val t | None => 1 end)
    | QLRange k a b => HLRange k (it_val a) (it_val b)
    | QZAdd k ws first more => HZAdd k (map (fun p => (ft_val (fst p), snd p)) (first :: more)) (za_opt_of ws)
    | QZIncrBy k inc m => HZIncBy k (ft_val inc) m
    | QZRangeIdx k a b ws => HZRange k (it_val a) (it_val b) (zr_opt_of ws)
    | QZRangeScore k a b ws | QZRangeByScore k a b ws =>
      HZRangeByScore k (ft_val (rs_tok a)) (ft_val (rs_tok b)) (with_ex (zr_opt_of ws) (rs_ex a) (rs_ex b))
    end.
End Expect.
