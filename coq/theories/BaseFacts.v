(* BaseFacts.v — facts about Base.v: Atoi inverts Itoa on int64; Itoa emits only '-' and digits. *)
From GR Require Import Base.
From Coq Require Import Decimal DecimalZ DecimalN DecimalPos DecimalFacts ZifyBool ZifyN ZifyNat.
Open Scope Z_scope.

Lemma uint_of_bytes_of_uint u : uint_of_bytes (bytes_of_uint u) = Some u.
Proof. induction u as [|u IH|u IH|u IH|u IH|u IH|u IH|u IH|u IH|u IH|u IH]; cbn; try rewrite IH; reflexivity. Qed.

Definition digit_or_minus (b : N) : bool := is_digit b || (b =? ch_minus)%N.

Lemma bytes_of_uint_digits u : Forall (fun b => is_digit b = true) (bytes_of_uint u).
Proof. induction u; cbn; constructor; auto. Qed.

Lemma bytes_of_uint_nonnil u : u <> Nil -> bytes_of_uint u <> [].
Proof. destruct u; cbn; congruence. Qed.

Lemma to_int_cases z :
  (0 <= z /\ exists u, Z.to_int z = Decimal.Pos u /\ u <> Nil /\ Z.of_N (N.of_uint u) = z) \/
  (z < 0 /\ exists u, Z.to_int z = Decimal.Neg u /\ u <> Nil /\ Z.of_N (N.of_uint u) = - z).
Proof.
  destruct z as [|p|p]; cbn.
  - left; split; [lia|]. exists (D0 Nil). repeat split; congruence.
  - left; split; [lia|]. exists (Pos.to_uint p). repeat split.
    + apply Unsigned.to_uint_nonnil.
    + change (N.of_uint (Pos.to_uint p)) with (Pos.of_uint (Pos.to_uint p)).
      rewrite DecimalPos.Unsigned.of_to. reflexivity.
  - right; split; [lia|]. exists (Pos.to_uint p). repeat split.
    + apply Unsigned.to_uint_nonnil.
    + change (N.of_uint (Pos.to_uint p)) with (Pos.of_uint (Pos.to_uint p)).
      rewrite DecimalPos.Unsigned.of_to. reflexivity.
Qed.

Lemma first_digit_not_sign u b r : bytes_of_uint u = b :: r -> (b =? ch_minus)%N = false /\ (b =? ch_plus)%N = false.
Proof.
  intros H. pose proof (bytes_of_uint_digits u) as F. rewrite H in F. inversion F as [|? ? Hd _]; subst.
  unfold is_digit in Hd. unfold ch_minus, ch_plus. split; lia.
Qed.

Lemma atoi_digits_of_uint neg u :
  u <> Nil ->
  atoi_digits neg (bytes_of_uint u) =
  (let m := Z.of_N (N.of_uint u) in let z := if neg then - m else m in if in64 z then Some z else None).
Proof.
  intros Hn. unfold atoi_digits. rewrite uint_of_bytes_of_uint.
  destruct (bytes_of_uint u) eqn:E; [exfalso; eapply bytes_of_uint_nonnil; eauto|reflexivity].
Qed.

Theorem atoi_itoa z : in64 z = true -> atoi (itoa z) = Some z.
Proof.
  intros Hr. unfold itoa.
  destruct (to_int_cases z) as [[Hz (u & -> & Hn & Hv)]|[Hz (u & -> & Hn & Hv)]].
  - pose proof (atoi_digits_of_uint false u Hn) as HA.
    destruct (bytes_of_uint u) as [|b r] eqn:E; [exfalso; eapply bytes_of_uint_nonnil; eauto|].
    destruct (first_digit_not_sign _ _ _ E) as [H1 H2].
    unfold atoi. rewrite H1, H2. rewrite HA. cbn zeta. rewrite Hv, Hr. reflexivity.
  - unfold atoi. rewrite N.eqb_refl. rewrite (atoi_digits_of_uint true u Hn). cbn zeta. rewrite Hv.
    replace (- - z) with z by lia. rewrite Hr. reflexivity.
Qed.

Lemma itoa_chars z : Forall (fun b => digit_or_minus b = true) (itoa z).
Proof.
  unfold itoa. destruct (Z.to_int z) as [u|u].
  - eapply Forall_impl; [|apply bytes_of_uint_digits]. intros b Hb; unfold digit_or_minus; rewrite Hb; reflexivity.
  - constructor; [reflexivity|].
    eapply Forall_impl; [|apply bytes_of_uint_digits]. intros b Hb; unfold digit_or_minus; rewrite Hb; reflexivity.
Qed.

Lemma itoa_no_cr z : ~ In CR (itoa z).
Proof.
  intros H. pose proof (itoa_chars z) as F. rewrite Forall_forall in F. specialize (F _ H).
  vm_compute in F. discriminate.
Qed.

Lemma itoa_no_lf z : ~ In LF (itoa z).
Proof.
  intros H. pose proof (itoa_chars z) as F. rewrite Forall_forall in F. specialize (F _ H).
  vm_compute in F. discriminate.
Qed.

Lemma itoa_nonempty z : itoa z <> [].
Proof.
  unfold itoa. destruct (to_int_cases z) as [[_ (u & -> & Hn & _)]|[_ (u & -> & Hn & _)]].
  - apply bytes_of_uint_nonnil; assumption.
  - discriminate.
Qed.

Lemma in64_of_nat_small n : (Z.of_nat n <= max64) -> in64 (Z.of_nat n) = true.
Proof. intros H. unfold in64, min64. apply andb_true_intro; split; apply Z.leb_le; [|assumption]. 
  assert (0 <= Z.of_nat n) by lia. assert (- 2 ^ 63 < 0) by (vm_compute; reflexivity). lia. Qed.
