package main

import (
	"fmt"
	"os"
	"strconv"
	"strings"
	"sync"

	"github.com/cybergarage/go-redis/redis/glob"
)

// enumStrings: all strings over alpha of length 0..maxlen, length-then-lexicographic (same order as modelrun).
func enumStrings(alpha []byte, maxlen int) []string {
	res := []string{}
	level := []string{""}
	res = append(res, level...)
	for l := 1; l <= maxlen; l++ {
		next := make([]string, 0, len(level)*len(alpha))
		for _, s := range level {
			for _, a := range alpha {
				next = append(next, s+string([]byte{a}))
			}
		}
		res = append(res, next...)
		level = next
	}
	return res
}

// directGlob is the independent oracle: a direct recursive glob matcher ('*', '?', literal), on bytes.
func directGlob(p, k string) bool {
	if p == "" {
		return k == ""
	}
	switch p[0] {
	case '*':
		for i := 0; i <= len(k); i++ {
			if directGlob(p[1:], k[i:]) {
				return true
			}
		}
		return false
	case '?':
		return k != "" && directGlob(p[1:], k[1:])
	default:
		return k != "" && k[0] == p[0] && directGlob(p[1:], k[1:])
	}
}

func bitset(keys []string, f func(string) bool) string {
	var sb strings.Builder
	acc, cnt := 0, 0
	for _, k := range keys {
		acc <<= 1
		if f(k) {
			acc |= 1
		}
		cnt++
		if cnt == 4 {
			sb.WriteString(strconv.FormatInt(int64(acc), 16))
			acc, cnt = 0, 0
		}
	}
	if cnt > 0 {
		sb.WriteString(strconv.FormatInt(int64(acc<<(4-cnt)), 16))
	}
	return sb.String()
}

// modeGlob: args alphabet-hex maxlen; stdin one pattern (hex) per line.
// out: <pattern> <compiled 0/1/P(panic)> <regexp source hex> <bitset impl> <bitset direct oracle>
func modeGlob(args []string) {
	alpha := unhx(args[0])
	maxlen, _ := strconv.Atoi(args[1])
	enumKeys := enumStrings(alpha, maxlen)
	// VERIF_GLOB_PAR=n: the lines are worked on by n goroutines at once (two Servers of one process, or a server and the
	// embedding application, compile patterns at the same time); the results are printed in input order
	par, _ := strconv.Atoi(os.Getenv("VERIF_GLOB_PAR"))
	var lines []string
	stdinLines(func(line string) { lines = append(lines, line) })
	results := make([]string, len(lines))
	one := func(li int) {
		line := lines[li]
		fields := strings.Fields(line)
		if len(fields) == 0 {
			return
		}
		p := string(unhx(fields[0]))
		keys := enumKeys
		if len(fields) > 1 {
			keys = make([]string, 0, len(fields)-1)
			for _, f := range fields[1:] {
				keys = append(keys, string(unhx(f)))
			}
		}
		func() {
			defer func() {
				if r := recover(); r != nil {
					results[li] = fmt.Sprintf("%s P - - %s\n", hx([]byte(p)), bitset(keys, func(k string) bool { return directGlob(p, k) }))
				}
			}()
			g, err := glob.Compile(p)
			if err != nil {
				results[li] = fmt.Sprintf("%s 0 - - %s\n", hx([]byte(p)), bitset(keys, func(k string) bool { return directGlob(p, k) }))
				return
			}
			results[li] = fmt.Sprintf("%s 1 %s %s %s\n", hx([]byte(p)), hx([]byte(g.String())),
				bitset(keys, g.MatchString), bitset(keys, func(k string) bool { return directGlob(p, k) }))
		}()
	}
	if par <= 1 {
		for li := range lines {
			one(li)
		}
	} else {
		var wg sync.WaitGroup
		for w := 0; w < par; w++ {
			wg.Add(1)
			go func(w int) {
				defer wg.Done()
				for li := w; li < len(lines); li += par {
					one(li)
				}
			}(w)
		}
		wg.Wait()
	}
	for _, r := range results {
		fmt.Fprint(out, r)
	}
}
