// Command harness replays verification cases against the implementation under test
// (cybergarage/go-redis, taken from the `replace` target of go.mod, built with -tags verif)
// and prints one observation line per case. It decides nothing: ../check compares.
package main

import (
	"bufio"
	"encoding/hex"
	"fmt"
	"github.com/cybergarage/go-logger/log"
	"os"
)

func hx(b []byte) string {
	if len(b) == 0 {
		return "-"
	}
	return hex.EncodeToString(b)
}

func unhx(s string) []byte {
	if s == "-" {
		return []byte{}
	}
	b, err := hex.DecodeString(s)
	if err != nil {
		panic(fmt.Sprintf("bad hex %q: %v", s, err))
	}
	return b
}

func stdinLines(f func(line string)) {
	sc := bufio.NewScanner(os.Stdin)
	sc.Buffer(make([]byte, 1<<20), 1<<28)
	for sc.Scan() {
		f(sc.Text())
	}
}

var out = bufio.NewWriterSize(os.Stdout, 1<<20)

func main() {
	defer out.Flush()
	if len(os.Args) < 2 {
		fmt.Fprintln(os.Stderr, "usage: harness <mode> [args]")
		os.Exit(2)
	}
	if os.Getenv("VERIF_LOG") == "debug" {
		// the application has installed a debug-level logger (what `go-redisd -debug` does); the lines go nowhere
		log.SetSharedLogger(log.NewFileLogger("/dev/null", log.LevelDebug))
	}
	switch os.Args[1] {
	case "glob":
		modeGlob(os.Args[2:])
	case "parse":
		modeParse(os.Args[2:])
	case "encode":
		modeEncode(os.Args[2:])
	case "ctor":
		modeCtor(os.Args[2:])
	case "conn":
		modeConn(os.Args[2:])
	case "tlsgate":
		modeTLSGate(os.Args[2:])
	case "churn":
		modeChurn(os.Args[2:])
	case "idle":
		modeIdle(os.Args[2:])
	case "life":
		modeLife(os.Args[2:])
	case "racestress":
		modeRaceStress(os.Args[2:])
	case "burst":
		modeBurst(os.Args[2:])
	case "stoprace":
		modeStopRace(os.Args[2:])
	case "witness":
		modeWitness(os.Args[2:])
	default:
		fmt.Fprintln(os.Stderr, "unknown mode", os.Args[1])
		os.Exit(2)
	}
}
