package main

import (
	"fmt"
	"io"
	"math"
	"strconv"
	"strings"
	"time"

	"github.com/cybergarage/go-redis/redis"
	"github.com/cybergarage/go-redis/redis/proto"
)

// ---- tree text format (shared with modelrun): s(hex) e(hex) i(hex) b(hex) n a[t,t,...]  N = nil element / nil array
func treeOf(m *proto.Message) string {
	var sb strings.Builder
	writeTree(&sb, m)
	return sb.String()
}

// writeTree prints the value into one builder (linear in the size of the value, also for deep nesting)
func writeTree(sb *strings.Builder, m *proto.Message) {
	if m == nil {
		sb.WriteString("N")
		return
	}
	b, _ := m.Bytes()
	switch m.Type {
	case proto.StringMessage:
		sb.WriteString("s(" + hx(b) + ")")
	case proto.ErrorMessage:
		sb.WriteString("e(" + hx(b) + ")")
	case proto.IntegerMessage:
		sb.WriteString("i(" + hx(b) + ")")
	case proto.BulkMessage:
		if b == nil {
			sb.WriteString("n")
			return
		}
		sb.WriteString("b(" + hx(b) + ")")
	case proto.ArrayMessage:
		arr, err := m.Array()
		if err != nil || arr == nil {
			sb.WriteString("a[N]")
			return
		}
		sb.WriteString("a[")
		rest, _ := arr.NextMessages()
		for i, e := range rest {
			if i > 0 {
				sb.WriteString(",")
			}
			writeTree(sb, e)
		}
		sb.WriteString("]")
	}
}

// parseTree builds a message through the public API from the tree text.
func parseTree(s string) (*proto.Message, string) {
	switch s[0] {
	case 'n':
		return redis.NewNilMessage(), s[1:]
	case 's', 'e', 'i', 'b':
		j := strings.IndexByte(s, ')')
		payload := unhx(s[2:j])
		var t proto.MessageType
		switch s[0] {
		case 's':
			t = proto.StringMessage
		case 'e':
			t = proto.ErrorMessage
		case 'i':
			t = proto.IntegerMessage
		default:
			t = proto.BulkMessage
		}
		return proto.NewMessageWithType(t).SetBytes(payload), s[j+1:]
	case 'u': // u(<hex type byte>): a message whose type is none of the five (a handler can build one: MessageType is a public byte type)
		j := strings.IndexByte(s, ')')
		return proto.NewMessageWithType(proto.MessageType(unhx(s[2:j])[0])), s[j+1:]
	case 'N': // an array-typed message whose array was never set (what a handler gets from NewMessageWithType(ArrayMessage))
		return proto.NewMessageWithType(proto.ArrayMessage), s[1:]
	case 'a':
		arr := proto.NewArray()
		rest := s[2:]
		for rest[0] != ']' {
			var e *proto.Message
			e, rest = parseTree(rest)
			arr.Append(e)
			if rest[0] == ',' {
				rest = rest[1:]
			}
		}
		return proto.NewMessageWithType(proto.ArrayMessage).SetArray(arr), rest[1:]
	}
	panic("bad tree " + s)
}

// chunkReader delivers scripted chunk sizes; counts bytes handed out.
type chunkReader struct {
	data   []byte
	sizes  []int
	pos    int
	reads  int
	zeroOK bool
	// eofWithData: the Read that hands out the last bytes returns them together with io.EOF (allowed by io.Reader; what
	// crypto/tls does when the peer's close_notify is already buffered, what iotest.DataErrReader does)
	eofWithData bool
}

func (r *chunkReader) Read(p []byte) (int, error) {
	if r.pos >= len(r.data) {
		return 0, io.EOF
	}
	avail := len(r.data) - r.pos
	if len(r.sizes) > 0 {
		if r.sizes[0] < avail {
			avail = r.sizes[0]
		}
	}
	n := len(p)
	if n > avail {
		n = avail
	}
	copy(p, r.data[r.pos:r.pos+n])
	r.pos += n
	r.reads++
	if len(r.sizes) > 0 {
		r.sizes[0] -= n
		if r.sizes[0] == 0 {
			r.sizes = r.sizes[1:]
		}
	}
	if r.eofWithData && r.pos >= len(r.data) {
		return n, io.EOF
	}
	return n, nil
}

func hasNilElement(m *proto.Message) bool {
	if m == nil {
		return true
	}
	if m.Type == proto.ArrayMessage {
		arr, _ := m.Array()
		if arr == nil {
			return false
		}
		cp := arr.ReverseBy(1) // fresh cursor over the same elements
		for {
			e, _ := cp.Next()
			if e == nil {
				break
			}
			if hasNilElement(e) {
				return true
			}
		}
		// a nil element stops Next() early: compare sizes
		n := 0
		cp2 := arr.ReverseBy(1)
		for {
			e, _ := cp2.Next()
			if e == nil {
				break
			}
			n++
		}
		if n != arr.Size() {
			return true
		}
	}
	return false
}

// modeParse: line "<chunks|-> <hex> [maxvalues]" ; out "<idx> <result>" with result = V<consumed>:<tree>;...;{S|E|P|L}
// S end of stream, E error, P panic (with message), L value limit reached.
var parseHangs = 0

const parseWatchdog = 20 * time.Second

func modeParse(args []string) {
	idx := 0
	stdinLines(func(line string) {
		f := strings.Fields(line)
		if len(f) < 2 {
			return
		}
		data := unhx(f[1])
		limit := 64
		if len(f) > 2 {
			limit, _ = strconv.Atoi(f[2])
		}
		var sizes []int
		eofWithData := false
		if strings.HasPrefix(f[0], "e") { // e<sizes>: as <sizes>, the last bytes arrive together with io.EOF
			eofWithData = true
			f[0] = f[0][1:]
		}
		if f[0] != "-" {
			for _, s := range strings.Split(f[0], ",") {
				v, _ := strconv.Atoi(s)
				if v > 0 {
					sizes = append(sizes, v)
				}
			}
		}
		if parseHangs >= 3 {
			// three inputs already left a goroutine spinning inside the parser: do not start more of them
			fmt.Fprintf(out, "%d SKIP\n", idx)
			idx++
			return
		}
		var sb strings.Builder
		done := make(chan struct{})
		go func() {
			defer close(done)
			defer func() {
				if r := recover(); r != nil {
					msg := fmt.Sprint(r)
					if len(msg) > 80 {
						msg = msg[:80]
					}
					sb.WriteString("P(" + strings.ReplaceAll(msg, " ", "_") + ")")
				}
			}()
			cr := &chunkReader{data: data, sizes: sizes, eofWithData: eofWithData}
			var p *proto.Parser
			if f[0] == "-" {
				p = proto.NewParserWithBytes(data)
			} else {
				p = proto.NewParserWithReader(cr)
			}
			for n := 0; ; n++ {
				if n >= limit {
					sb.WriteString("L")
					return
				}
				m, err := p.Next()
				if err != nil {
					sb.WriteString("E")
					return
				}
				if m == nil {
					sb.WriteString("S")
					return
				}
				consumed := -1
				if f[0] != "-" {
					consumed = cr.pos
				}
				nilFlag := ""
				if hasNilElement(m) {
					nilFlag = "!NIL"
				}
				sb.WriteString(fmt.Sprintf("V%d%s:%s;", consumed, nilFlag, treeOf(m)))
			}
		}()
		select {
		case <-done:
			fmt.Fprintf(out, "%d %s\n", idx, sb.String())
		case <-time.After(parseWatchdog):
			// Parser.Next did not return: the goroutine keeps running (it cannot be stopped), the case is reported as a hang
			parseHangs++
			fmt.Fprintf(out, "%d H\n", idx)
		}
		idx++
	})
}

// modeEncode: line "<tree>" ; out "<idx> <hex of RESPBytes | ERR | P> <reparse-tree>"
func modeEncode(args []string) {
	idx := 0
	var prevB []byte // the bytes RESPBytes returned for the previous value, and what they were then: an encoding
	var prevS string // stays what it was when further values are encoded (a reply waits in a write while others are built)
	stdinLines(func(line string) {
		line = strings.TrimSpace(line)
		if line == "" {
			return
		}
		res := ""
		func() {
			defer func() {
				if r := recover(); r != nil {
					res = "P - 0"
				}
			}()
			m, _ := parseTree(line)
			b, err := m.RESPBytes()
			if err != nil {
				res = "ERR - 0"
				return
			}
			back, err := proto.NewParserWithBytes(b).Next()
			bt := "E"
			reser := "0"
			if err == nil && back != nil {
				if b2, err2 := back.RESPBytes(); err2 == nil && string(b2) == string(b) {
					reser = "1"
				}
				bt = treeOf(back)
			}
			res = hx(b) + " " + bt + " " + reser
			// the life of a value after its first serialization: serialized again it gives the same bytes; changed through its public
			// API (an element appended through the Array handle, the payload of its first element replaced) and serialized again it
			// gives what a freshly built value gives that was changed the same way BEFORE it was ever serialized
			if b3, err3 := m.RESPBytes(); err3 != nil || string(b3) != string(b) {
				res = "MUT second-serialization " + hx(b) + " " + hx(b3)
			} else if m.IsArray() && !m.IsNil() {
				mutate := func(x *proto.Message) {
					if arr, err := x.Array(); err == nil && arr != nil {
						if first, err := arr.Next(); err == nil && first != nil && !first.IsArray() && !first.IsNil() {
							first.SetBytes([]byte("changed"))
						}
						arr.Append(proto.NewMessageWithType(proto.BulkMessage).SetBytes([]byte("tail")))
					}
				}
				fresh, _ := parseTree(line)
				mutate(fresh)
				want, errW := fresh.RESPBytes()
				mutate(m)
				got, errG := m.RESPBytes()
				if errW == nil && (errG != nil || string(got) != string(want)) {
					res = "MUT changed-after-serialization " + hx(want) + " " + hx(got)
				}
			}
			if prevB != nil && string(prevB) != prevS {
				res = "ALIAS " + hx([]byte(prevS)) + " " + hx(prevB)
			}
			prevB, prevS = b, string(b)
		}()
		fmt.Fprintf(out, "%d %s\n", idx, res)
		idx++
	})
}

// modeCtor: constructors of redis/message.go decode back to the Go value they were built from (Go-side monitor),
// and their bytes are printed for comparison with the model's itoa / encode.
// line: "int <decimal>" | "float <hexbits>" | "str <hex>" | "strs <hex>,<hex>..."
func modeCtor(args []string) {
	idx := 0
	stdinLines(func(line string) {
		f := strings.Fields(line)
		if len(f) < 2 {
			return
		}
		res := ""
		func() {
			defer func() {
				if r := recover(); r != nil {
					res = "P"
				}
			}()
			switch f[0] {
			case "int":
				z, _ := strconv.ParseInt(f[1], 10, 64)
				m := redis.NewIntegerMessage(int(z))
				b, _ := m.RESPBytes()
				back, err := proto.NewParserWithBytes(b).Next()
				ok := err == nil && back != nil && back.IsInteger()
				if ok {
					v, e := back.Integer()
					ok = e == nil && int64(v) == z
				}
				res = fmt.Sprintf("%s %v", hx(b), ok)
			case "float":
				bits, _ := strconv.ParseUint(f[1], 16, 64)
				x := math.Float64frombits(bits)
				m := redis.NewFloatMessage(x)
				b, _ := m.RESPBytes()
				back, err := proto.NewParserWithBytes(b).Next()
				ok := err == nil && back != nil && back.IsBulk()
				if ok {
					s, e := back.String()
					y, e2 := strconv.ParseFloat(s, 64)
					// the Go value it was built from: the same float64, sign of zero included
					ok = e == nil && e2 == nil && math.Float64bits(y) == math.Float64bits(x) && !strings.ContainsAny(s, "\r\n")
				}
				res = fmt.Sprintf("%s %v", hx(b), ok)
			case "str":
				s := string(unhx(f[1]))
				okAll := true
				var sb strings.Builder
				for _, m := range []*proto.Message{redis.NewBulkMessage(s), redis.NewStringMessage(s), redis.NewErrorMessage(fmt.Errorf("%s", s))} {
					b, _ := m.RESPBytes()
					sb.WriteString(hx(b) + ",")
					back, err := proto.NewParserWithBytes(b).Next()
					if err != nil || back == nil || back.Type != m.Type {
						okAll = false
						continue
					}
					bb, _ := back.Bytes()
					if m.Type == proto.BulkMessage || !strings.ContainsAny(s, "\r\n") {
						if string(bb) != s {
							okAll = false
						}
					}
				}
				res = fmt.Sprintf("%s %v", sb.String(), okAll)
			case "strs":
				strs := []string{}
				if f[1] != "." {
					for _, h := range strings.Split(f[1], ",") {
						strs = append(strs, string(unhx(h)))
					}
				}
				m := redis.NewStringArrayMessage(strs)
				b, _ := m.RESPBytes()
				back, err := proto.NewParserWithBytes(b).Next()
				ok := err == nil && back != nil && back.IsArray()
				if ok {
					arr, _ := back.Array()
					ok = arr.Size() == len(strs)
					for _, s := range strs {
						g, e := arr.NextString()
						if e != nil || g != s {
							ok = false
						}
					}
				}
				res = fmt.Sprintf("%s %v", hx(b), ok)
			case "misc":
				b1, _ := redis.NewOKMessage().RESPBytes()
				b2, _ := redis.NewNilMessage().RESPBytes()
				b3, _ := redis.NewArrayMessage().RESPBytes()
				res = fmt.Sprintf("%s,%s,%s true", hx(b1), hx(b2), hx(b3))
			}
		}()
		fmt.Fprintf(out, "%d %s\n", idx, res)
		idx++
	})
}
