package main

// lifecycle.go — real-socket harness for C09 (TLS gate), C15 (Start/Stop/Restart) and C19 (release under churn):
// a real server (bundled example store) on kernel-assigned ports, TLS fixtures generated at run time.

import (
	"bufio"
	"crypto/ecdsa"
	"crypto/elliptic"
	"crypto/rand"
	"crypto/tls"
	"crypto/x509"
	"crypto/x509/pkix"
	"encoding/json"
	"encoding/pem"
	"errors"
	"fmt"
	"io"
	"math/big"
	"net"
	"os"
	"path/filepath"
	"runtime"
	"sort"
	"strconv"
	"strings"
	"sync"
	"sync/atomic"
	"syscall"
	"time"

	exserver "github.com/cybergarage/go-redis/examples/go-redisd/server"
	"github.com/cybergarage/go-redis/redis"
	"github.com/cybergarage/go-redis/redis/auth"
)

// ---------------------------------------------------------------- PKI
type ident struct {
	cert *x509.Certificate
	der  []byte
	key  *ecdsa.PrivateKey
}

var serial int64 = 100

func issue(cn string, isCA bool, parent *ident, notBefore, notAfter time.Time) *ident {
	key, err := ecdsa.GenerateKey(elliptic.P256(), rand.Reader)
	if err != nil {
		panic(err)
	}
	tmpl := &x509.Certificate{
		SerialNumber:          big.NewInt(atomic.AddInt64(&serial, 1)),
		Subject:               pkix.Name{CommonName: cn},
		NotBefore:             notBefore,
		NotAfter:              notAfter,
		BasicConstraintsValid: true,
		IsCA:                  isCA,
	}
	if isCA {
		tmpl.KeyUsage = x509.KeyUsageCertSign | x509.KeyUsageDigitalSignature
	} else {
		tmpl.KeyUsage = x509.KeyUsageDigitalSignature
		tmpl.ExtKeyUsage = []x509.ExtKeyUsage{x509.ExtKeyUsageClientAuth, x509.ExtKeyUsageServerAuth}
		tmpl.DNSNames = []string{"localhost"}
		tmpl.IPAddresses = []net.IP{net.ParseIP("127.0.0.1")}
	}
	signer, signerKey := tmpl, key
	if parent != nil {
		signer, signerKey = parent.cert, parent.key
	}
	der, err := x509.CreateCertificate(rand.Reader, tmpl, signer, &key.PublicKey, signerKey)
	if err != nil {
		panic(err)
	}
	c, _ := x509.ParseCertificate(der)
	return &ident{cert: c, der: der, key: key}
}

func (i *ident) certPEM() []byte {
	return pem.EncodeToMemory(&pem.Block{Type: "CERTIFICATE", Bytes: i.der})
}
func (i *ident) keyPEM() []byte {
	b, _ := x509.MarshalECPrivateKey(i.key)
	return pem.EncodeToMemory(&pem.Block{Type: "EC PRIVATE KEY", Bytes: b})
}
func (i *ident) tlsCert(chain ...*ident) tls.Certificate {
	c := tls.Certificate{Certificate: [][]byte{i.der}, PrivateKey: i.key}
	for _, x := range chain {
		c.Certificate = append(c.Certificate, x.der)
	}
	return c
}

type pki struct {
	ca, server, valid, wrongName, selfSigned, foreignCA, foreign, expired, inter, underInter, neutralInter, validUnderNeutral, revoked *ident
	srvRoot, srvInter, serverB, underSrvInter                                                                                          *ident
	nameVariants                                                                                                                       map[string]*ident
	dir                                                                                                                                string
}

const ruleName = "trusted-client"
const revokedName = "revoked-client"

// revocationList is an application authenticator consulted before the common-name rule: it turns away one certificate and -
// unlike the bundled authenticators - says why (ok = false together with an error value).
type revocationList struct{}

func (revocationList) Authenticate(conn auth.Conn) (bool, error) {
	if st, ok := conn.TLSConnectionState(); ok && len(st.PeerCertificates) > 0 && st.PeerCertificates[0].Subject.CommonName == revokedName {
		return false, errors.New("certificate is revoked")
	}
	return true, nil
}

func newPKI() *pki {
	now := time.Now()
	ok1, ok2 := now.Add(-time.Hour), now.Add(24*time.Hour)
	p := &pki{}
	p.ca = issue("verif-ca", true, nil, ok1, ok2)
	p.server = issue("localhost", false, p.ca, ok1, ok2)
	p.valid = issue(ruleName, false, p.ca, ok1, ok2)
	p.wrongName = issue("mallory", false, p.ca, ok1, ok2)
	p.revoked = issue(revokedName, false, p.ca, ok1, ok2)
	// a server certificate of ANOTHER hierarchy (its own root and intermediate; the server's certificate file is then a bundle: leaf
	// plus intermediate), and a client certificate with the rule's name issued by that intermediate: the server's own chain is not a
	// CA for clients
	p.srvRoot = issue("server-root", true, nil, ok1, ok2)
	p.srvInter = issue("server-intermediate", true, p.srvRoot, ok1, ok2)
	p.serverB = issue("localhost", false, p.srvInter, ok1, ok2)
	p.underSrvInter = issue(ruleName, false, p.srvInter, ok1, ok2)
	// names that differ from the rule's name by case, by a character that case-folds to one of its letters (U+017F folds to s), by
	// white space or by one character: the rule names ONE name
	p.nameVariants = map[string]*ident{}
	for k, n := range map[string]string{"name-uppercase": strings.ToUpper(ruleName), "name-titlecase": "Trusted-Client", "name-unicode-fold": "tru\u017fted-client",
		"name-trailing-space": ruleName + " ", "name-leading-space": " " + ruleName, "name-prefix": ruleName[:len(ruleName)-1], "name-extended": ruleName + "2"} {
		p.nameVariants[k] = issue(n, false, p.ca, ok1, ok2)
	}
	p.selfSigned = issue(ruleName, false, nil, ok1, ok2)
	p.foreignCA = issue("foreign-ca", true, nil, ok1, ok2)
	p.foreign = issue(ruleName, false, p.foreignCA, ok1, ok2)
	p.expired = issue(ruleName, false, p.ca, now.Add(-48*time.Hour), now.Add(-24*time.Hour))
	p.inter = issue(ruleName, true, p.ca, ok1, ok2) // an intermediate CA that carries the rule name
	p.underInter = issue("mallory-sub", false, p.inter, ok1, ok2)
	p.neutralInter = issue("neutral-intermediate", true, p.ca, ok1, ok2)
	p.validUnderNeutral = issue(ruleName, false, p.neutralInter, ok1, ok2)
	dir, err := os.MkdirTemp("", "verif-pki-")
	if err != nil {
		panic(err)
	}
	p.dir = dir
	os.WriteFile(filepath.Join(dir, "server.crt"), p.server.certPEM(), 0o600)
	os.WriteFile(filepath.Join(dir, "server.key"), p.server.keyPEM(), 0o600)
	os.WriteFile(filepath.Join(dir, "ca.crt"), p.ca.certPEM(), 0o600)
	os.WriteFile(filepath.Join(dir, "server-bundle.crt"), append(p.serverB.certPEM(), p.srvInter.certPEM()...), 0o600)
	os.WriteFile(filepath.Join(dir, "server-bundle.key"), p.serverB.keyPEM(), 0o600)
	// the foreign CA is one the HOST trusts (as any public CA would be): it is the only entry of the process's system trust
	// store.  A server that must let in clients of the configured CA only may not fall back on that store.
	os.WriteFile(filepath.Join(dir, "hosttrust.pem"), p.foreignCA.certPEM(), 0o600)
	os.Mkdir(filepath.Join(dir, "hosttrust.d"), 0o700)
	os.Setenv("SSL_CERT_FILE", filepath.Join(dir, "hosttrust.pem"))
	os.Setenv("SSL_CERT_DIR", filepath.Join(dir, "hosttrust.d"))
	return p
}

func (p *pki) cleanup() { os.RemoveAll(p.dir) }

func (p *pki) clientConfig(cert *tls.Certificate) *tls.Config {
	pool := x509.NewCertPool()
	pool.AddCert(p.ca.cert)
	pool.AddCert(p.srvRoot.cert) // (clients also trust the root of the second server hierarchy)
	cfg := &tls.Config{RootCAs: pool, ServerName: "localhost", MinVersion: tls.VersionTLS12}
	if cert != nil {
		cfg.Certificates = []tls.Certificate{*cert}
	}
	return cfg
}

// ---------------------------------------------------------------- server under test
func freePort() int {
	l, err := net.Listen("tcp", "127.0.0.1:0")
	if err != nil {
		panic(err)
	}
	defer l.Close()
	return l.Addr().(*net.TCPAddr).Port
}

type sut struct {
	srv           *exserver.Server
	plain, secure int
	whoami        sync.Map // identity -> count of executed WHOAMI commands
	executed      int64
	pw            string
}

// newSUT: mode "plain" | "tls" | "both"; rule: require the common name; pw: require a password
func newSUT(p *pki, mode string, rule bool, pw string) *sut {
	s := &sut{srv: exserver.NewServer(), pw: pw}
	s.srv.SetPort(0)
	if mode == "plain" || mode == "both" {
		s.plain = freePort()
		s.srv.SetPort(s.plain)
	}
	if mode == "both-badtls" {
		// both ports enabled, but no server certificate was configured: Start must fail, and Stop must give the plain port back
		s.plain = freePort()
		s.srv.SetPort(s.plain)
		s.secure = freePort()
		s.srv.SetTLSPort(s.secure)
	}
	if mode == "tls" || mode == "both" {
		s.secure = freePort()
		s.srv.SetTLSPort(s.secure)
		must(s.srv.SetTLSCertFile(filepath.Join(p.dir, "server.crt")))
		must(s.srv.SetTLSKeyFile(filepath.Join(p.dir, "server.key")))
		must(s.srv.SetTLSCaCertFile(filepath.Join(p.dir, "ca.crt")))
	}
	if rule {
		s.srv.AddAuthenticator(revocationList{})
		s.srv.AddAuthenticator(auth.NewCertificateAuthenticatorWith(auth.WithCommonName(ruleName)))
	}
	if pw != "" {
		s.srv.SetRequirePass(pw)
	}
	s.srv.RegisterExexutor("WHOAMI", func(conn *redis.Conn, cmd string, args redis.Arguments) (*redis.Message, error) {
		id := "plain"
		if st, ok := conn.TLSConnectionState(); ok && len(st.PeerCertificates) > 0 {
			id = st.PeerCertificates[0].Subject.CommonName
		}
		atomic.AddInt64(&s.executed, 1)
		v, _ := s.whoami.LoadOrStore(id, new(int64))
		atomic.AddInt64(v.(*int64), 1)
		return redis.NewBulkMessage(id), nil
	})
	return s
}

// startSUT builds a server on kernel-assigned ports and starts it; another process may take a port between the probe and
// the bind (the repository's own tests, other shards): such a start is repeated on fresh ports.
func startSUT(p *pki, mode string, rule bool, pw string) (*sut, error) {
	var s *sut
	var err error
	for try := 0; try < 6; try++ {
		s = newSUT(p, mode, rule, pw)
		if err = s.srv.Start(); err == nil || !strings.Contains(err.Error(), "address already in use") {
			return s, err
		}
		s.srv.Stop()
		time.Sleep(20 * time.Millisecond)
	}
	return s, err
}

func must(err error) {
	if err != nil {
		panic(err)
	}
}

func addr(port int) string { return "127.0.0.1:" + strconv.Itoa(port) }

const ioTimeout = 3 * time.Second

// exchange sends a command and reads one reply line (enough for +PONG / +OK / $n / -ERR)
func exchange(c net.Conn, req string) (string, error) {
	c.SetDeadline(time.Now().Add(ioTimeout))
	if _, err := c.Write([]byte(req)); err != nil {
		return "", err
	}
	r := bufio.NewReader(c)
	line, err := r.ReadString('\n')
	if err != nil {
		return line, err
	}
	if strings.HasPrefix(line, "$") && !strings.HasPrefix(line, "$-1") {
		body, err := r.ReadString('\n')
		return line + body, err
	}
	return line, nil
}

func resp(args ...string) string {
	var sb strings.Builder
	fmt.Fprintf(&sb, "*%d\r\n", len(args))
	for _, a := range args {
		fmt.Fprintf(&sb, "$%d\r\n%s\r\n", len(a), a)
	}
	return sb.String()
}

// served: the connection answers PING with PONG (after AUTH when a password is required)
func servedOn(c net.Conn, pw string) bool {
	if pw != "" {
		if r, err := exchange(c, resp("AUTH", pw)); err != nil || !strings.HasPrefix(r, "+OK") {
			return false
		}
	}
	r, err := exchange(c, resp("PING"))
	return err == nil && strings.HasPrefix(r, "+PONG")
}

func plainServed(port int, pw string) bool {
	c, err := net.DialTimeout("tcp", addr(port), ioTimeout)
	if err != nil {
		return false
	}
	defer c.Close()
	return servedOn(c, pw)
}

// plainAlive: the plain port accepts a connection and answers a request with a RESP reply (PONG, or an error such as
// "not authorized" when the configuration requires credentials a plain client cannot present)
func plainAlive(port int) bool {
	c, err := net.DialTimeout("tcp", addr(port), ioTimeout)
	if err != nil {
		return false
	}
	defer c.Close()
	r, err := exchange(c, resp("PING"))
	return err == nil && (strings.HasPrefix(r, "+PONG") || strings.HasPrefix(r, "-"))
}

func tlsServed(p *pki, port int, cert *tls.Certificate, pw string) (handshake bool, served bool) {
	raw, err := net.DialTimeout("tcp", addr(port), ioTimeout)
	if err != nil {
		return false, false
	}
	defer raw.Close()
	c := tls.Client(raw, p.clientConfig(cert))
	c.SetDeadline(time.Now().Add(ioTimeout))
	if err := c.Handshake(); err != nil {
		return false, false
	}
	return true, servedOn(c, pw)
}

func countFDs() int {
	es, err := os.ReadDir("/proc/self/fd")
	if err != nil {
		return -1
	}
	return len(es)
}

// fdTargets lists what the open descriptors point to (diagnostics for a leak report)
func fdTargets() map[string]string {
	out := map[string]string{}
	es, _ := os.ReadDir("/proc/self/fd")
	for _, e := range es {
		t, _ := os.Readlink("/proc/self/fd/" + e.Name())
		out[e.Name()] = t
	}
	return out
}

// leakedSockets: sockets open now that were not open at the baseline (other descriptor kinds come and go with the runtime)
func leakedSockets(base map[string]string) []string {
	had := map[string]bool{}
	for _, v := range base {
		had[v] = true
	}
	out := []string{}
	for k, v := range fdTargets() {
		if strings.HasPrefix(v, "socket:") && !had[v] {
			out = append(out, k+"->"+v)
		}
	}
	return out
}

// warmUp creates the runtime's network poller descriptors before any baseline is taken
func warmUp() {
	l, err := net.Listen("tcp", "127.0.0.1:0")
	if err != nil {
		return
	}
	c, err := net.Dial("tcp", l.Addr().String())
	if err == nil {
		c.Close()
	}
	l.Close()
	time.Sleep(10 * time.Millisecond)
}

func settle(pred func() bool, d time.Duration) bool {
	deadline := time.Now().Add(d)
	for {
		if pred() {
			return true
		}
		if time.Now().After(deadline) {
			return false
		}
		time.Sleep(5 * time.Millisecond)
	}
}

func emit(v any) {
	b, _ := json.Marshal(v)
	fmt.Fprintln(out, string(b))
}

// ---------------------------------------------------------------- C09: the TLS gate
type gateResult struct {
	Config     string `json:"config"`
	Cred       string `json:"cred"`
	Fault      string `json:"fault"`
	Order      string `json:"order"`
	Handshake  bool   `json:"handshake"`
	Served     bool   `json:"served"`
	Executed   int64  `json:"executed_for_client"`
	GoodTLS    bool   `json:"good_tls_after"`
	GoodPlain  bool   `json:"good_plain_after"`
	GoodTLSDur int64  `json:"good_tls_ms"`
	Note       string `json:"note,omitempty"`
}

func modeTLSGate(args []string) {
	p := newPKI()
	defer p.cleanup()
	creds := []string{"none", "plaintext", "selfsigned", "foreignca", "expired", "wrongname", "intermediate-name", "valid", "valid-under-neutral-intermediate"}
	faults := []string{"complete", "abort", "stall", "garbage", "hello-then-garbage", "oversized-record", "sslv2-hello", "hello-then-plain-command"}
	for _, cfgName := range []string{"norule", "rule", "rule+pw"} {
		rule := cfgName != "norule"
		pw := ""
		if cfgName == "rule+pw" {
			pw = "s3cret"
		}
		s, err := startSUT(p, "both", rule, pw)
		if err != nil {
			emit(map[string]any{"error": "start: " + err.Error(), "config": cfgName})
			continue
		}
		for _, cred := range creds {
			for _, fault := range faults {
				for _, order := range []string{"bad-first", "good-first"} {
					r := gateResult{Config: cfgName, Cred: cred, Fault: fault, Order: order}
					vc := p.valid.tlsCert()
					if order == "good-first" {
						tlsServed(p, s.secure, &vc, pw)
					}
					var cert *tls.Certificate
					id := ""
					switch cred {
					case "selfsigned":
						c := p.selfSigned.tlsCert()
						cert = &c
						id = ruleName
					case "foreignca":
						c := p.foreign.tlsCert(p.foreignCA)
						cert = &c
						id = ruleName
					case "expired":
						c := p.expired.tlsCert()
						cert = &c
						id = ruleName
					case "wrongname":
						c := p.wrongName.tlsCert()
						cert = &c
						id = "mallory"
					case "intermediate-name":
						c := p.underInter.tlsCert(p.inter)
						cert = &c
						id = "mallory-sub"
					case "valid":
						c := p.valid.tlsCert()
						cert = &c
						id = ruleName
					case "valid-under-neutral-intermediate":
						c := p.validUnderNeutral.tlsCert(p.neutralInter)
						cert = &c
						id = ruleName
					}
					before := int64(0)
					if v, ok := s.whoami.Load(idOr(id, cred)); ok {
						before = atomic.LoadInt64(v.(*int64))
					}
					var held net.Conn
					raw, err := net.DialTimeout("tcp", addr(s.secure), ioTimeout)
					if err != nil {
						r.Note = "dial: " + err.Error()
					} else {
						switch {
						case cred == "plaintext":
							raw.SetDeadline(time.Now().Add(ioTimeout))
							raw.Write([]byte(resp("WHOAMI")))
							if fault == "stall" {
								held = raw
							} else {
								io.ReadAll(io.LimitReader(raw, 64))
								raw.Close()
							}
						case fault == "abort":
							// send a ClientHello, then drop the connection
							c := tls.Client(&abortAfterFirstWrite{Conn: raw}, p.clientConfig(cert))
							c.SetDeadline(time.Now().Add(ioTimeout))
							c.Handshake()
							raw.Close()
						case fault == "stall":
							held = raw // connect and say nothing
						case fault == "hello-then-garbage" || fault == "hello-then-plain-command":
							// a genuine ClientHello, then bytes that are not a TLS record
							h := &helloThen{Conn: raw, then: []byte("\x00\x01garbage after the hello\xff\xfe\r\n")}
							if fault == "hello-then-plain-command" {
								h.then = []byte(resp("WHOAMI"))
							}
							c := tls.Client(h, p.clientConfig(cert))
							c.SetDeadline(time.Now().Add(ioTimeout))
							c.Handshake()
							raw.Close()
						case fault == "oversized-record":
							raw.SetDeadline(time.Now().Add(ioTimeout))
							raw.Write([]byte("\x16\x03\x01\xff\xff" + strings.Repeat("A", 64)))
							io.ReadAll(io.LimitReader(raw, 64))
							raw.Close()
						case fault == "sslv2-hello":
							raw.SetDeadline(time.Now().Add(ioTimeout))
							raw.Write([]byte("\x80\x2e\x01\x00\x02\x00\x15\x00\x00\x00\x10" + strings.Repeat("B", 40)))
							io.ReadAll(io.LimitReader(raw, 64))
							raw.Close()
						case fault == "garbage":
							raw.SetDeadline(time.Now().Add(ioTimeout))
							raw.Write([]byte("\x16\x03\x01\x00\x05hello garbage \x00\xff\xfe"))
							io.ReadAll(io.LimitReader(raw, 64))
							raw.Close()
						default:
							c := tls.Client(raw, p.clientConfig(cert))
							c.SetDeadline(time.Now().Add(ioTimeout))
							if err := c.Handshake(); err == nil {
								r.Handshake = true
								if pw != "" {
									exchange(c, resp("AUTH", pw))
								}
								rep, err := exchange(c, resp("WHOAMI"))
								r.Served = err == nil && strings.HasPrefix(rep, "$")
							}
							raw.Close()
						}
					}
					t0 := time.Now()
					_, r.GoodTLS = tlsServed(p, s.secure, &vc, pw)
					r.GoodTLSDur = time.Since(t0).Milliseconds()
					r.GoodPlain = plainAlive(s.plain)
					if held != nil {
						held.Close()
					}
					time.Sleep(2 * time.Millisecond)
					after := int64(0)
					if v, ok := s.whoami.Load(idOr(id, cred)); ok {
						after = atomic.LoadInt64(v.(*int64))
					}
					r.Executed = after - before
					emit(r)
				}
			}
		}
		// a client that keeps a TLS session cache: its second and third connections RESUME the session (no certificate is sent
		// again); the gate applies to every connection, resumed or not
		for _, cred := range []string{"wrongname", "intermediate-name", "foreignca", "valid"} {
			var cert tls.Certificate
			switch cred {
			case "wrongname":
				cert = p.wrongName.tlsCert()
			case "intermediate-name":
				cert = p.underInter.tlsCert(p.inter)
			case "foreignca":
				cert = p.foreign.tlsCert(p.foreignCA)
			default:
				cert = p.valid.tlsCert()
			}
			for _, maxVer := range []uint16{tls.VersionTLS12, tls.VersionTLS13} {
				cc := p.clientConfig(&cert)
				cc.ClientSessionCache = tls.NewLRUClientSessionCache(8)
				cc.MaxVersion = maxVer
				for i := 1; i <= 3; i++ {
					r := gateResult{Config: cfgName, Cred: cred, Fault: "complete", Order: fmt.Sprintf("session-cache-tls1.%d-connection-%d", maxVer-tls.VersionTLS10, i), GoodTLS: true, GoodPlain: true}
					before := atomic.LoadInt64(&s.executed)
					raw, err := net.DialTimeout("tcp", addr(s.secure), ioTimeout)
					if err != nil {
						r.Note = "dial: " + err.Error()
					} else {
						c := tls.Client(raw, cc)
						c.SetDeadline(time.Now().Add(ioTimeout))
						if err := c.Handshake(); err == nil {
							r.Handshake = true
							if c.ConnectionState().DidResume {
								r.Note = "resumed"
							}
							if pw != "" {
								exchange(c, resp("AUTH", pw))
							}
							rep, err := exchange(c, resp("WHOAMI"))
							r.Served = err == nil && strings.HasPrefix(rep, "$")
						}
						raw.Close()
					}
					time.Sleep(2 * time.Millisecond)
					r.Executed = atomic.LoadInt64(&s.executed) - before
					emit(r)
				}
			}
		}
		// certificates of the configured CA whose common name is ALMOST the rule's name
		{
			keys := []string{}
			for k := range p.nameVariants {
				keys = append(keys, k)
			}
			sort.Strings(keys)
			for _, k := range keys {
				cert := p.nameVariants[k].tlsCert()
				r := gateResult{Config: cfgName, Cred: k, Fault: "complete", Order: "bad-first", GoodTLS: true, GoodPlain: true}
				before := atomic.LoadInt64(&s.executed)
				raw, err := net.DialTimeout("tcp", addr(s.secure), ioTimeout)
				if err != nil {
					r.Note = "dial: " + err.Error()
				} else {
					c := tls.Client(raw, p.clientConfig(&cert))
					c.SetDeadline(time.Now().Add(ioTimeout))
					if err := c.Handshake(); err == nil {
						r.Handshake = true
						if pw != "" {
							exchange(c, resp("AUTH", pw))
						}
						rep, err := exchange(c, resp("WHOAMI"))
						r.Served = err == nil && strings.HasPrefix(rep, "$")
					}
					raw.Close()
				}
				time.Sleep(2 * time.Millisecond)
				r.Executed = atomic.LoadInt64(&s.executed) - before
				emit(r)
			}
		}
		// many failed handshakes in a row (port probes, health checks that connect and hang up): whatever the server keeps per
		// handshake must not add up - afterwards a well-behaved client is still served
		floodN := 300
		if len(args) > 0 {
			if n, err := strconv.Atoi(args[0]); err == nil && n > 0 {
				floodN = n
			}
		}
		for _, kind := range []string{"connect-close", "hello-close", "mixed"} {
			r := gateResult{Config: cfgName, Cred: "none", Fault: fmt.Sprintf("flood-%s-%d", kind, floodN), Order: "bad-first"}
			for i := 0; i < floodN; i++ {
				raw, err := net.DialTimeout("tcp", addr(s.secure), ioTimeout)
				if err != nil {
					r.Note = "dial: " + err.Error()
					break
				}
				k := kind
				if kind == "mixed" {
					k = []string{"connect-close", "hello-close", "garbage"}[i%3]
				}
				switch k {
				case "hello-close":
					c := tls.Client(&abortAfterFirstWrite{Conn: raw}, p.clientConfig(nil))
					c.SetDeadline(time.Now().Add(ioTimeout))
					c.Handshake()
				case "garbage":
					raw.SetDeadline(time.Now().Add(ioTimeout))
					raw.Write([]byte("\x16\x03\x01\x00\x05hello garbage \x00\xff\xfe"))
				}
				raw.Close()
			}
			time.Sleep(50 * time.Millisecond)
			vc := p.valid.tlsCert()
			t0 := time.Now()
			_, r.GoodTLS = tlsServed(p, s.secure, &vc, pw)
			if !r.GoodTLS { // once more, in case the first attempt raced with the tail of the flood
				time.Sleep(300 * time.Millisecond)
				t0 = time.Now()
				_, r.GoodTLS = tlsServed(p, s.secure, &vc, pw)
			}
			r.GoodTLSDur = time.Since(t0).Milliseconds()
			r.GoodPlain = plainAlive(s.plain)
			emit(r)
		}
		// the operator replaces the CA client certificates must chain to, and restarts: from then on the retired CA's
		// clients are strangers and the new CA's clients are let in
		ca2 := filepath.Join(p.dir, "ca-rotated.crt")
		os.WriteFile(ca2, p.foreignCA.certPEM(), 0o600)
		if err := s.srv.SetTLSCaCertFile(ca2); err != nil {
			emit(map[string]any{"error": "rotate: " + err.Error(), "config": cfgName})
		} else if err := s.srv.Restart(); err != nil {
			emit(map[string]any{"error": "restart after CA rotation: " + err.Error(), "config": cfgName})
		} else {
			try := func(cred string, cert tls.Certificate) {
				r := gateResult{Config: cfgName + "+rotated-ca", Cred: cred, Fault: "complete", Order: "bad-first", GoodTLS: true, GoodPlain: plainAlive(s.plain)}
				before := atomic.LoadInt64(&s.executed)
				raw, err := net.DialTimeout("tcp", addr(s.secure), ioTimeout)
				if err != nil {
					r.Note = "dial: " + err.Error()
				} else {
					c := tls.Client(raw, p.clientConfig(&cert))
					c.SetDeadline(time.Now().Add(ioTimeout))
					if err := c.Handshake(); err == nil {
						r.Handshake = true
						if pw != "" {
							exchange(c, resp("AUTH", pw))
						}
						rep, err := exchange(c, resp("WHOAMI"))
						r.Served = err == nil && strings.HasPrefix(rep, "$")
					}
					raw.Close()
				}
				time.Sleep(2 * time.Millisecond)
				r.Executed = atomic.LoadInt64(&s.executed) - before
				emit(r)
			}
			try("retired-ca", p.valid.tlsCert())
			try("new-ca", p.foreign.tlsCert(p.foreignCA))
			try("retired-ca", p.validUnderNeutral.tlsCert(p.neutralInter))
		}
		if err := s.srv.Stop(); err != nil {
			emit(map[string]any{"error": "stop: " + err.Error(), "config": cfgName})
		}
		if rule {
			passwordChangePhase(p, cfgName, pw)
		}
	}
	bundlePhase(p)
}

// passwordChangePhase runs on a server of its own (configuration cfgName: a common-name rule, with or without a password).
func passwordChangePhase(p *pki, cfgName string, pw string) {
	s, err := startSUT(p, "both", true, pw)
	if err != nil {
		emit(map[string]any{"error": "start: " + err.Error(), "config": cfgName})
		return
	}
	defer s.srv.Stop()
	// the password is changed while the server runs (CONFIG SET requirepass by an authorized client) and by the operator
	// (SetRequirePass + Restart): the certificate gate is not part of the password - clients whose certificate the rule turns
	// away are still turned away, whichever password they present
	tryRefused := func(phase string, cred string, cert tls.Certificate, pws []string) {
		r := gateResult{Config: cfgName + phase, Cred: cred, Fault: "complete", Order: "bad-first", GoodTLS: true, GoodPlain: plainAlive(s.plain)}
		before := atomic.LoadInt64(&s.executed)
		raw, err := net.DialTimeout("tcp", addr(s.secure), ioTimeout)
		if err != nil {
			r.Note = "dial: " + err.Error()
		} else {
			c := tls.Client(raw, p.clientConfig(&cert))
			c.SetDeadline(time.Now().Add(ioTimeout))
			if err := c.Handshake(); err == nil {
				r.Handshake = true
				for _, w := range pws {
					exchange(c, resp("AUTH", w))
				}
				rep, err := exchange(c, resp("WHOAMI"))
				r.Served = err == nil && strings.HasPrefix(rep, "$")
			}
			raw.Close()
		}
		time.Sleep(2 * time.Millisecond)
		r.Executed = atomic.LoadInt64(&s.executed) - before
		emit(r)
	}
	vc := p.valid.tlsCert()
	if raw, err := net.DialTimeout("tcp", addr(s.secure), ioTimeout); err == nil {
		c := tls.Client(raw, p.clientConfig(&vc))
		c.SetDeadline(time.Now().Add(ioTimeout))
		if c.Handshake() == nil {
			if pw != "" {
				exchange(c, resp("AUTH", pw))
			}
			exchange(c, resp("CONFIG", "SET", "requirepass", "changed-1"))
		}
		raw.Close()
	}
	pws := []string{"changed-1", pw}
	tryRefused("+password-changed-by-config-set", "wrongname", p.wrongName.tlsCert(), pws)
	tryRefused("+password-changed-by-config-set", "intermediate-name", p.underInter.tlsCert(p.inter), pws)
	s.srv.SetRequirePass("changed-2")
	if err := s.srv.Restart(); err != nil {
		emit(map[string]any{"error": "restart after password change: " + err.Error(), "config": cfgName})
	}
	pws = []string{"changed-2", "changed-1", pw}
	tryRefused("+password-changed-and-restarted", "wrongname", p.wrongName.tlsCert(), pws)
	tryRefused("+password-changed-and-restarted", "intermediate-name", p.underInter.tlsCert(p.inter), pws)
	s.srv.SetRequirePass("changed-3")
	if err := s.srv.Restart(); err != nil {
		emit(map[string]any{"error": "restart after password change: " + err.Error(), "config": cfgName})
	}
	pws = []string{"changed-3", "changed-2", "changed-1", pw}
	tryRefused("+password-changed-twice-and-restarted", "wrongname", p.wrongName.tlsCert(), pws)
	tryRefused("+password-changed-twice-and-restarted", "selfsigned", p.selfSigned.tlsCert(), pws)
}

// bundlePhase: a server whose certificate file is a bundle (leaf + intermediate) of a hierarchy that is NOT the configured client CA.
func bundlePhase(p *pki) {
	cfgName := "rule+server-bundle"
	var s *sut
	var err error
	for try := 0; try < 6; try++ {
		s = newSUT(p, "both", true, "")
		must(s.srv.SetTLSCertFile(filepath.Join(p.dir, "server-bundle.crt")))
		must(s.srv.SetTLSKeyFile(filepath.Join(p.dir, "server-bundle.key")))
		if err = s.srv.Start(); err == nil || !strings.Contains(err.Error(), "address already in use") {
			break
		}
		s.srv.Stop()
		time.Sleep(20 * time.Millisecond)
	}
	if err != nil {
		emit(map[string]any{"error": "start with a bundled server certificate: " + err.Error(), "config": cfgName})
		return
	}
	defer s.srv.Stop()
	try := func(cred string, cert tls.Certificate) {
		r := gateResult{Config: cfgName, Cred: cred, Fault: "complete", Order: "bad-first", GoodTLS: true, GoodPlain: plainAlive(s.plain)}
		before := atomic.LoadInt64(&s.executed)
		raw, err := net.DialTimeout("tcp", addr(s.secure), ioTimeout)
		if err != nil {
			r.Note = "dial: " + err.Error()
		} else {
			c := tls.Client(raw, p.clientConfig(&cert))
			c.SetDeadline(time.Now().Add(ioTimeout))
			if err := c.Handshake(); err == nil {
				r.Handshake = true
				rep, err := exchange(c, resp("WHOAMI"))
				r.Served = err == nil && strings.HasPrefix(rep, "$")
			}
			raw.Close()
		}
		time.Sleep(2 * time.Millisecond)
		r.Executed = atomic.LoadInt64(&s.executed) - before
		emit(r)
	}
	try("valid", p.valid.tlsCert())
	try("under-server-intermediate", p.underSrvInter.tlsCert())
	try("under-server-intermediate", p.underSrvInter.tlsCert(p.srvInter))
	try("valid", p.valid.tlsCert())
}

func idOr(id, cred string) string {
	if id == "" {
		return "plain"
	}
	return id
}

// helloThen lets the first write (the ClientHello) through and replaces every later write by `then`.
type helloThen struct {
	net.Conn
	wrote bool
	then  []byte
}

func (h *helloThen) Write(b []byte) (int, error) {
	if !h.wrote {
		h.wrote = true
		n, err := h.Conn.Write(b)
		if err == nil {
			h.Conn.Write(h.then)
		}
		return n, err
	}
	h.Conn.Write(h.then)
	return len(b), nil
}

type abortAfterFirstWrite struct {
	net.Conn
	wrote bool
}

func (a *abortAfterFirstWrite) Write(b []byte) (int, error) {
	if a.wrote {
		return 0, errors.New("aborted")
	}
	a.wrote = true
	return a.Conn.Write(b)
}
func (a *abortAfterFirstWrite) Read(b []byte) (int, error) {
	if a.wrote {
		return 0, errors.New("aborted")
	}
	return a.Conn.Read(b)
}

// stopGuarded calls Stop and gives up waiting after 15 s: a Stop that does not return is a finding, not a reason for the run to hang
var errStopHangs = errors.New("Stop did not return within 15 s")

func stopGuarded(srv interface{ Stop() error }) error {
	done := make(chan error, 1)
	go func() { done <- srv.Stop() }()
	select {
	case err := <-done:
		return err
	case <-time.After(15 * time.Second):
		return errStopHangs
	}
}

// ---------------------------------------------------------------- C19: churn
type churnResult struct {
	Mode           string         `json:"mode"`
	Cycles         int            `json:"cycles"`
	InFlight       int            `json:"in_flight"`
	RegistryAfter  int            `json:"registry_after"`
	RegistryPeak   int            `json:"registry_peak"`
	GoroutineDelta int            `json:"goroutine_delta"`
	FDDelta        int            `json:"fd_delta"`
	StopErr        string         `json:"stop_err,omitempty"`
	NotClosed      int            `json:"not_closed_by_server"` // QUIT / protocol error: the server must close the connection itself
	Counts         map[string]int `json:"counts,omitempty"`
	Note           string         `json:"note,omitempty"`
}

func rst(c net.Conn) {
	if t, ok := c.(*net.TCPConn); ok {
		t.SetLinger(0)
	}
	c.Close()
}

var notClosedByServer int32 // connections that the server should have closed itself (after QUIT, after a protocol error) and did not

func oneEnding(p *pki, s *sut, mode string, k int) {
	big := strings.Repeat("x", 60000)
	switch mode {
	case "fin-boundary":
		if c, err := net.DialTimeout("tcp", addr(s.plain), ioTimeout); err == nil {
			for i := 0; i < 1+k%3; i++ {
				exchange(c, resp("PING"))
			}
			c.Close()
		}
	case "fin-mid":
		if c, err := net.DialTimeout("tcp", addr(s.plain), ioTimeout); err == nil {
			full := resp("SET", "k", "v") + resp("GET", "k")
			c.Write([]byte(full[:1+(k*7)%(len(full)-1)]))
			c.Close()
		}
	case "rst":
		if c, err := net.DialTimeout("tcp", addr(s.plain), ioTimeout); err == nil {
			full := resp("PING") + resp("SET", "k", "v")
			c.Write([]byte(full[:(k*5)%(len(full)+1)]))
			rst(c)
		}
	case "quit":
		if c, err := net.DialTimeout("tcp", addr(s.plain), ioTimeout); err == nil {
			exchange(c, resp("PING"))
			if k%2 == 0 {
				exchange(c, resp("QUIT")+resp("PING"))
			} else {
				exchange(c, resp("QUIT"))
			}
			// the client keeps its end open and waits for the server to hang up, as QUIT clients do
			c.SetDeadline(time.Now().Add(ioTimeout))
			if _, err := io.ReadAll(c); errors.Is(err, os.ErrDeadlineExceeded) { // (a reset is a close, too)
				atomic.AddInt32(&notClosedByServer, 1)
			}
			c.Close()
		}
	case "quit-client-stays":
		// one client at a time: after QUIT (and the end of the stream) the client keeps its socket open; the server has released
		// the connection all the same - it is out of the registry
		if c, err := net.DialTimeout("tcp", addr(s.plain), ioTimeout); err == nil {
			exchange(c, resp("PING"))
			exchange(c, resp("QUIT")+strings.Repeat(resp("PING"), k%3))
			c.SetDeadline(time.Now().Add(ioTimeout))
			if _, err := io.ReadAll(c); errors.Is(err, os.ErrDeadlineExceeded) {
				atomic.AddInt32(&notClosedByServer, 1)
			} else if !settle(func() bool { return len(s.srv.Conns()) == 0 }, 2*time.Second) {
				atomic.AddInt32(&notClosedByServer, 1)
			}
			c.Close()
		}
	case "malformed":
		if c, err := net.DialTimeout("tcp", addr(s.plain), ioTimeout); err == nil {
			c.SetDeadline(time.Now().Add(ioTimeout))
			c.Write([]byte(resp("PING") + "!bogus\r\n" + resp("PING")))
			if _, err := io.ReadAll(c); errors.Is(err, os.ErrDeadlineExceeded) { // (a reset is a close, too)
				atomic.AddInt32(&notClosedByServer, 1)
			}
			c.Close()
		}
	case "stops-reading":
		if c, err := net.DialTimeout("tcp", addr(s.plain), ioTimeout); err == nil {
			if tc, ok := c.(*net.TCPConn); ok {
				tc.SetReadBuffer(8192) // a small receive window: the server's writes block after a few replies
			}
			c.SetDeadline(time.Now().Add(ioTimeout))
			for i := 0; i < 40; i++ { // replies pile up unread until the server's writes block
				if _, err := c.Write([]byte(resp("ECHO", big))); err != nil {
					break
				}
			}
			// VERIF_STALL_MS: every fourth stalled reader stays stalled this long before it goes away (longer than every
			// write deadline or timeout the tree under test has: the driver sets it from the durations found in the source)
			if ms, _ := strconv.Atoi(os.Getenv("VERIF_STALL_MS")); ms > 0 && k%4 == 0 {
				// many small requests with large replies: far more reply bytes than the socket buffers of both ends hold
				c.SetDeadline(time.Now().Add(ioTimeout))
				c.Write([]byte(resp("SET", "stall:big", big) + strings.Repeat(resp("GET", "stall:big"), 600)))
				time.Sleep(time.Duration(ms) * time.Millisecond)
			}
			rst(c)
		}
	case "tls-polite":
		vc := p.valid.tlsCert()
		if raw, err := net.DialTimeout("tcp", addr(s.secure), ioTimeout); err == nil {
			c := tls.Client(raw, p.clientConfig(&vc))
			c.SetDeadline(time.Now().Add(ioTimeout))
			if c.Handshake() == nil {
				exchange(c, resp("PING"))
			}
			c.Close()
		}
	case "tls-rst":
		vc := p.valid.tlsCert()
		if raw, err := net.DialTimeout("tcp", addr(s.secure), ioTimeout); err == nil {
			c := tls.Client(raw, p.clientConfig(&vc))
			c.SetDeadline(time.Now().Add(ioTimeout))
			if c.Handshake() == nil {
				exchange(c, resp("PING"))
			}
			rst(raw)
		}
	case "tls-handshake-fail":
		if c, err := net.DialTimeout("tcp", addr(s.secure), ioTimeout); err == nil {
			c.SetDeadline(time.Now().Add(ioTimeout))
			c.Write([]byte(resp("PING")))
			io.ReadAll(io.LimitReader(c, 64))
			c.Close()
		}
	case "tls-rejected-cert", "tls-rejected-with-reason":
		// the common-name rule turns the certificate away (ok = false, no error value) / the application's revocation list does
		// (ok = false with an error value); every other time the client keeps its end open and waits for the server to hang up
		wc := p.wrongName.tlsCert()
		if mode == "tls-rejected-with-reason" {
			wc = p.revoked.tlsCert()
		}
		if raw, err := net.DialTimeout("tcp", addr(s.secure), ioTimeout); err == nil {
			c := tls.Client(raw, p.clientConfig(&wc))
			c.SetDeadline(time.Now().Add(ioTimeout))
			if c.Handshake() == nil {
				if k%2 == 0 {
					exchange(c, resp("PING"))
				} else {
					raw.SetDeadline(time.Now().Add(ioTimeout))
					if _, err := io.ReadAll(raw); errors.Is(err, os.ErrDeadlineExceeded) {
						atomic.AddInt32(&notClosedByServer, 1)
					}
				}
			}
			c.Close()
		}
	case "tls-stall":
		if c, err := net.DialTimeout("tcp", addr(s.secure), ioTimeout); err == nil {
			time.Sleep(20 * time.Millisecond)
			c.Close()
		}
	}
}

func stallHold() time.Duration {
	ms, _ := strconv.Atoi(os.Getenv("VERIF_STALL_MS"))
	return time.Duration(ms) * time.Millisecond
}

func modeChurn(args []string) {
	cycles := 200
	if len(args) > 0 {
		cycles, _ = strconv.Atoi(args[0])
	}
	seed := 1
	if len(args) > 1 {
		seed, _ = strconv.Atoi(args[1])
	}
	warmUp()
	p := newPKI()
	defer p.cleanup()
	// watchdog: a server whose registry query, accept path or Stop no longer returns would hang this run; that is a finding, reported
	// as a row, not a reason to wait for the driver's timeout
	var progress int64 = time.Now().UnixNano()
	var current atomic.Value
	current.Store("start")
	touch := func() { atomic.StoreInt64(&progress, time.Now().UnixNano()) }
	go func() {
		for {
			time.Sleep(time.Second)
			if time.Since(time.Unix(0, atomic.LoadInt64(&progress))) > 40*time.Second+stallHold() {
				emit(churnResult{Mode: current.Load().(string), Note: "no progress for 40 s: the server no longer answers (a registry query, the accept path, a connection's release or Stop does not return)"})
				out.Flush()
				p.cleanup() // (deferred calls do not run on os.Exit)
				os.Exit(0)
			}
		}
	}()
	modes := []string{"fin-boundary", "fin-mid", "rst", "quit", "malformed", "stops-reading", "tls-polite", "tls-rst", "tls-handshake-fail", "tls-rejected-cert", "tls-rejected-with-reason", "tls-stall"}
	// one ending mode at a time (attributable), then all mixed
	runBatch := func(name string, pick func(i int) string, n int, inflight int, stopWithOpen bool) {
		current.Store(name)
		touch()
		defer touch()
		var s *sut
		var err error
		var g0 int
		var fd0 map[string]string
		for try := 0; try < 6; try++ { // a port taken by another process between probe and bind: start again on fresh ports
			s = newSUT(p, "both", true, "")
			runtime.GC()
			g0 = runtime.NumGoroutine()
			fd0 = fdTargets()
			if err = s.srv.Start(); err == nil || !strings.Contains(err.Error(), "address already in use") {
				break
			}
			s.srv.Stop()
			time.Sleep(20 * time.Millisecond)
		}
		if err != nil {
			emit(churnResult{Mode: name, Note: "start: " + err.Error()})
			return
		}
		res := churnResult{Mode: name, Cycles: n, InFlight: inflight, Counts: map[string]int{}}
		atomic.StoreInt32(&notClosedByServer, 0)
		var peak int32
		sem := make(chan struct{}, inflight)
		var wg sync.WaitGroup
		var mu sync.Mutex
		for i := 0; i < n; i++ {
			m := pick(i)
			mu.Lock()
			res.Counts[m]++
			mu.Unlock()
			sem <- struct{}{}
			wg.Add(1)
			go func(i int, m string) {
				defer wg.Done()
				defer func() { <-sem }()
				oneEnding(p, s, m, i)
				touch()
				if c := int32(len(s.srv.Conns())); c > atomic.LoadInt32(&peak) {
					atomic.StoreInt32(&peak, c)
				}
			}(i, m)
		}
		wg.Wait()
		res.RegistryPeak = int(peak)
		res.NotClosed = int(atomic.LoadInt32(&notClosedByServer))
		var open []net.Conn
		if stopWithOpen {
			for i := 0; i < 5; i++ {
				if c, err := net.DialTimeout("tcp", addr(s.plain), ioTimeout); err == nil {
					exchange(c, resp("PING"))
					open = append(open, c)
				}
			}
			// ... and connections to the TLS port that are still inside the handshake: silent, half a ClientHello, a complete
			// ClientHello without the client's answer - accepted sockets that Stop has to close like any other
			vcert := p.valid.tlsCert()
			for i := 0; i < 3; i++ {
				if c, err := net.DialTimeout("tcp", addr(s.secure), ioTimeout); err == nil {
					switch i {
					case 1:
						c.Write([]byte("\x16\x03\x01\x00\xc8\x01\x00\x00\xc4\x03\x03"))
					case 2:
						go func(c net.Conn) {
							tc := tls.Client(&abortAfterFirstWrite{Conn: c}, p.clientConfig(&vcert))
							tc.SetDeadline(time.Now().Add(ioTimeout))
							tc.Handshake()
						}(c)
					}
					open = append(open, c)
				}
			}
			time.Sleep(50 * time.Millisecond)
		} else {
			settle(func() bool { return len(s.srv.Conns()) == 0 }, 4*time.Second)
			res.RegistryAfter = len(s.srv.Conns())
		}
		if err := stopGuarded(s.srv); err != nil {
			res.StopErr = err.Error()
			if err == errStopHangs {
				res.Note = "Stop did not return within 15 s"
				emit(res)
				out.Flush()
				p.cleanup() // (deferred calls do not run on os.Exit)
				os.Exit(0)  // the server is wedged: nothing more can be learnt from this process
			}
		}
		if stopWithOpen {
			res.RegistryAfter = len(s.srv.Conns())
			for i, c := range open { // every client must see its connection closed by Stop
				c.SetDeadline(time.Now().Add(ioTimeout))
				if n, err := c.Read(make([]byte, 4096)); (err == nil && n == 0) || errors.Is(err, os.ErrDeadlineExceeded) {
					res.Note = fmt.Sprintf("a client connection (#%d of 5 plain + 3 still shaking hands on the TLS port) was still open after Stop returned", i)
				} else if err == nil {
					// bytes of the server's handshake answer: read on until the close
					if _, err := io.ReadAll(c); errors.Is(err, os.ErrDeadlineExceeded) {
						res.Note = fmt.Sprintf("a client connection (#%d of 5 plain + 3 still shaking hands on the TLS port) was still open after Stop returned", i)
					}
				}
				c.Close()
			}
		}
		settle(func() bool { runtime.GC(); return runtime.NumGoroutine() <= g0 && len(leakedSockets(fd0)) == 0 }, 4*time.Second)
		res.GoroutineDelta = runtime.NumGoroutine() - g0
		res.FDDelta = len(leakedSockets(fd0))
		emit(res)
	}
	per := cycles / len(modes)
	if per < 8 {
		per = 8
	}
	for _, m := range modes {
		m := m
		runBatch(m, func(int) string { return m }, per, 4, false)
	}
	x := uint32(seed)*2654435761 + 12345
	next := func() uint32 { x ^= x << 13; x ^= x >> 17; x ^= x << 5; return x }
	for _, inflight := range []int{1, 8, 32} {
		runBatch(fmt.Sprintf("mixed-%d-in-flight", inflight), func(int) string { return modes[int(next())%len(modes)] }, cycles, inflight, false)
	}
	runBatch("quit-client-stays", func(int) string { return "quit-client-stays" }, 6, 1, false)
	runBatch("stop-with-open-connections", func(int) string { return modes[int(next())%len(modes)] }, cycles/4+8, 8, true)
}

// ---------------------------------------------------------------- C15: Start / Stop / Restart sequences
type lifeObs struct {
	Seq      string   `json:"seq"`
	Config   string   `json:"config"`
	Steps    []string `json:"steps"` // one observation per op
	Problems []string `json:"problems"`
}

// ops: S start, X stop, R restart, c connect a plain client (idle), t connect a TLS client (idle), d disconnect the oldest client
func modeLife(args []string) {
	warmUp()
	p := newPKI()
	defer p.cleanup()
	stdinLines(func(line string) {
		f := strings.Fields(line)
		if len(f) != 2 {
			return
		}
		cfg, seq := f[0], f[1]
		for attempt := 0; ; attempt++ {
			o, portRace := runLife(p, cfg, seq)
			if portRace && attempt < 4 {
				continue
			}
			emit(o)
			return
		}
	})
}

// runLife plays one sequence; portRace: Start failed because a port chosen as free was taken meanwhile by another process
func runLife(p *pki, cfg, seq string) (lifeObs, bool) {
	{
		portRace := false
		sutCfg := cfg
		if cfg == "plain-quit" { // the plain configuration, with clients that send QUIT and then keep their socket open (op q)
			sutCfg = "plain"
		}
		s := newSUT(p, sutCfg, sutCfg != "plain", "")
		runtime.GC()
		g0 := runtime.NumGoroutine()
		fd0 := fdTargets()
		o := lifeObs{Seq: seq, Config: cfg, Problems: []string{}}
		running := false
		type cl struct {
			c   net.Conn
			tls bool
		}
		var clients []cl
		var quitters []net.Conn // clients that sent QUIT, got +OK and keep their end open
		vc := p.valid.tlsCert()
		checkServing := func(tag string) {
			if s.plain != 0 {
				if !plainServed(s.plain, "") {
					o.Problems = append(o.Problems, tag+": the server was started without error and not stopped, but the plain port does not serve")
				}
			}
			if s.secure != 0 {
				if _, ok := tlsServed(p, s.secure, &vc, ""); !ok {
					o.Problems = append(o.Problems, tag+": the server was started without error and not stopped, but the TLS port does not serve")
				}
			}
		}
		checkStopped := func(tag string) {
			for _, port := range []int{s.plain, s.secure} {
				if port == 0 {
					continue
				}
				// another process probing for a free port may hold this one for an instant: retry briefly
				var l net.Listener
				var err error
				for try := 0; try < 40; try++ {
					if l, err = net.Listen("tcp", addr(port)); err == nil {
						break
					}
					time.Sleep(25 * time.Millisecond)
				}
				if err != nil {
					o.Problems = append(o.Problems, fmt.Sprintf("%s: port %d cannot be bound again: %v", tag, port, err))
				} else {
					l.Close()
				}
			}
			if n := len(s.srv.Conns()); n != 0 {
				o.Problems = append(o.Problems, fmt.Sprintf("%s: the registry holds %d connections", tag, n))
			}
			for _, c := range clients {
				c.c.SetDeadline(time.Now().Add(ioTimeout))
				if _, err := c.c.Read(make([]byte, 1)); err == nil || errors.Is(err, os.ErrDeadlineExceeded) {
					o.Problems = append(o.Problems, tag+": a client connection is still open")
				}
				c.c.Close()
			}
			clients = nil
			for _, c := range quitters {
				// the server's end is gone: a read sees the end, and what the client still writes is refused (reset) within moments
				c.SetDeadline(time.Now().Add(ioTimeout))
				if _, err := c.Read(make([]byte, 1)); err == nil || errors.Is(err, os.ErrDeadlineExceeded) {
					o.Problems = append(o.Problems, tag+": the connection of a client that had sent QUIT is still open")
				}
				refused := false
				for k := 0; k < 20 && !refused; k++ {
					if _, err := c.Write([]byte(resp("PING"))); err != nil {
						refused = true
					}
					time.Sleep(10 * time.Millisecond)
				}
				if !refused {
					o.Problems = append(o.Problems, tag+": the server side of a connection whose client had sent QUIT still takes bytes after Stop")
				}
				c.Close()
			}
			quitters = nil
			if !settle(func() bool { runtime.GC(); return runtime.NumGoroutine() <= g0 }, 3*time.Second) {
				o.Problems = append(o.Problems, fmt.Sprintf("%s: %d server goroutines remain", tag, runtime.NumGoroutine()-g0))
			}
		}
		for i, op := range seq {
			tag := fmt.Sprintf("op %d (%c)", i, op)
			switch op {
			case 'S':
				wasRunning := running
				err := s.srv.Start()
				if err != nil && !wasRunning && strings.Contains(err.Error(), "address already in use") {
					portRace = true
				}
				o.Steps = append(o.Steps, fmt.Sprintf("S:%v", err == nil))
				if err == nil {
					running = true
					if cfg == "both-badtls" {
						o.Problems = append(o.Problems, tag+": Start returned nil although the TLS port has no certificate")
					} else {
						checkServing(tag)
					}
				} else if cfg == "both-badtls" {
					// a failed Start promises nothing about serving; a following Stop must release whatever was opened
					running = false
				} else if wasRunning {
					// Start on a running server fails; the server was started without error and Stop was not called: it serves
					checkServing(tag + " (Start on a running server returned an error)")
				}
			case 'X':
				err := stopGuarded(s.srv)
				if err == errStopHangs {
					o.Problems = append(o.Problems, tag+": Stop did not return within 15 s")
					emit(o)
					out.Flush()
					p.cleanup() // (deferred calls do not run on os.Exit)
					os.Exit(0)
				}
				o.Steps = append(o.Steps, fmt.Sprintf("X:%v", err == nil))
				running = false
				if err != nil {
					o.Problems = append(o.Problems, tag+": Stop returned "+err.Error())
				}
				checkStopped(tag)
			case 'R':
				// clients connected before a restart must have been closed by it
				old := clients
				clients = nil
				err := s.srv.Restart()
				if err != nil && strings.Contains(err.Error(), "address already in use") {
					portRace = true
				}
				o.Steps = append(o.Steps, fmt.Sprintf("R:%v", err == nil))
				for _, c := range old {
					c.c.SetDeadline(time.Now().Add(ioTimeout))
					if _, e := c.c.Read(make([]byte, 1)); e == nil || errors.Is(e, os.ErrDeadlineExceeded) {
						o.Problems = append(o.Problems, tag+": a client connection survived Restart")
					}
					c.c.Close()
				}
				if err == nil {
					running = true
					checkServing(tag)
				} else {
					running = false
				}
			case 'c', 't':
				if !running {
					o.Steps = append(o.Steps, string(op)+":skip")
					continue
				}
				var c net.Conn
				var err error
				if op == 'c' && s.plain != 0 {
					c, err = net.DialTimeout("tcp", addr(s.plain), ioTimeout)
					if err == nil && !servedOn(c, "") {
						err = errors.New("not served")
					}
				} else if op == 't' && s.secure != 0 {
					var raw net.Conn
					raw, err = net.DialTimeout("tcp", addr(s.secure), ioTimeout)
					if err == nil {
						tc := tls.Client(raw, p.clientConfig(&vc))
						tc.SetDeadline(time.Now().Add(ioTimeout))
						if err = tc.Handshake(); err == nil && !servedOn(tc, "") {
							err = errors.New("not served")
						}
						c = tc
					}
				} else {
					o.Steps = append(o.Steps, string(op)+":skip")
					continue
				}
				if err != nil {
					o.Problems = append(o.Problems, tag+": a client could not be served while the server is running: "+err.Error())
					continue
				}
				clients = append(clients, cl{c, op == 't'})
				// the registry holds exactly the connections being served
				want := len(clients)
				if !settle(func() bool { return len(s.srv.Conns()) == want }, 2*time.Second) {
					o.Problems = append(o.Problems, fmt.Sprintf("%s: %d clients are being served, the registry holds %d", tag, want, len(s.srv.Conns())))
				}
				o.Steps = append(o.Steps, fmt.Sprintf("%c:%d", op, len(s.srv.Conns())))
			case 'j', 'h':
				// j: a TLS client whose certificate the common-name rule refuses (the handshake itself succeeds);
				// h: a client whose TLS handshake fails (self-signed certificate).  Neither may be served or stay registered.
				if !running || s.secure == 0 {
					o.Steps = append(o.Steps, string(op)+":skip")
					continue
				}
				bad := p.wrongName.tlsCert()
				if op == 'h' {
					bad = p.selfSigned.tlsCert()
				}
				raw, err := net.DialTimeout("tcp", addr(s.secure), ioTimeout)
				if err == nil {
					tc := tls.Client(raw, p.clientConfig(&bad))
					tc.SetDeadline(time.Now().Add(ioTimeout))
					if tc.Handshake() == nil && servedOn(tc, "") {
						o.Problems = append(o.Problems, tag+": a client that must be refused was served")
					}
					tc.Close()
				}
				want := len(clients)
				if !settle(func() bool { return len(s.srv.Conns()) == want }, 2*time.Second) {
					o.Problems = append(o.Problems, fmt.Sprintf("%s: %d clients are being served, the registry holds %d", tag, want, len(s.srv.Conns())))
				}
				o.Steps = append(o.Steps, fmt.Sprintf("%c:%d", op, len(s.srv.Conns())))
			case 'q':
				// a client is served, sends QUIT, reads the reply and KEEPS its socket open: the server has released the connection
				// (it leaves the registry); at Stop nothing of it is left - no goroutine, and its socket is closed on the server side
				if !running || s.plain == 0 {
					o.Steps = append(o.Steps, "q:skip")
					continue
				}
				c, err := net.DialTimeout("tcp", addr(s.plain), ioTimeout)
				if err != nil || !servedOn(c, "") {
					o.Problems = append(o.Problems, tag+": a client could not be served while the server is running")
					continue
				}
				if rep, err := exchange(c, resp("QUIT")); err != nil || !strings.HasPrefix(rep, "+OK") {
					o.Problems = append(o.Problems, fmt.Sprintf("%s: QUIT was answered %q (%v)", tag, rep, err))
				}
				quitters = append(quitters, c)
				want := len(clients)
				if !settle(func() bool { return len(s.srv.Conns()) == want }, 2*time.Second) {
					o.Problems = append(o.Problems, fmt.Sprintf("%s: %d clients are being served (one more has sent QUIT), the registry holds %d", tag, want, len(s.srv.Conns())))
				}
				o.Steps = append(o.Steps, fmt.Sprintf("q:%d", len(s.srv.Conns())))
			case 'd':
				if len(clients) == 0 {
					o.Steps = append(o.Steps, "d:skip")
					continue
				}
				clients[0].c.Close()
				clients = clients[1:]
				want := len(clients)
				if !settle(func() bool { return len(s.srv.Conns()) == want }, 2*time.Second) {
					o.Problems = append(o.Problems, fmt.Sprintf("%s: %d clients are being served, the registry holds %d", tag, want, len(s.srv.Conns())))
				}
				o.Steps = append(o.Steps, fmt.Sprintf("d:%d", len(s.srv.Conns())))
			}
		}
		if running {
			if err := s.srv.Stop(); err != nil {
				o.Problems = append(o.Problems, "final Stop returned "+err.Error())
			}
			checkStopped("final stop")
		}
		for _, c := range clients {
			c.c.Close()
		}
		settle(func() bool { runtime.GC(); return len(leakedSockets(fd0)) == 0 }, 3*time.Second)
		if leaked := leakedSockets(fd0); len(leaked) > 0 {
			o.Problems = append(o.Problems, fmt.Sprintf("%d sockets remain open after the last Stop: %v", len(leaked), leaked))
		}
		if portRace {
			s.srv.Stop()
		}
		return o, portRace
	}
}

// ---------------------------------------------------------------- C15: Stop against a connection that registers while Stop runs
// gatedConn: Close waits for the gate (holds Server.Stop inside its "close the registered connections" phase).
type gatedConn struct {
	net.Conn
	gate chan struct{}
}

func (g *gatedConn) Close() error {
	<-g.gate
	return g.Conn.Close()
}

// stoprace: client A's socket is wrapped (through an application executor) so that closing it blocks; client B has connected to the TLS
// port but not yet shaken hands.  Stop is called and blocks closing A; B now completes its handshake and is registered; the gate opens.
// Stop must return, B must be closed, the registry must be empty: a connection accepted before Stop does not survive it, whenever it registers.
func modeStopRace(args []string) {
	rounds := 3
	if len(args) > 0 {
		rounds, _ = strconv.Atoi(args[0])
	}
	p := newPKI()
	defer p.cleanup()
	for round := 0; round < rounds; round++ {
		s, err := startSUT(p, "both", false, "")
		if err != nil {
			emit(map[string]any{"error": "start: " + err.Error()})
			continue
		}
		gate := make(chan struct{})
		s.srv.RegisterExexutor("GATE", func(conn *redis.Conn, cmd string, args redis.Arguments) (*redis.Message, error) {
			conn.Conn = &gatedConn{Conn: conn.Conn, gate: gate}
			return redis.NewOKMessage(), nil
		})
		res := map[string]any{"round": round, "problems": []string{}}
		add := func(msg string) { res["problems"] = append(res["problems"].([]string), msg) }
		a, err := net.DialTimeout("tcp", addr(s.plain), ioTimeout)
		if err != nil {
			add("A cannot connect: " + err.Error())
		} else if rep, err := exchange(a, resp("GATE")); err != nil || !strings.HasPrefix(rep, "+OK") {
			add(fmt.Sprintf("GATE was answered %q %v", rep, err))
		}
		rawB, err := net.DialTimeout("tcp", addr(s.secure), ioTimeout)
		if err != nil {
			add("B cannot connect: " + err.Error())
		}
		vc := p.valid.tlsCert()
		if _, ok := tlsServed(p, s.secure, &vc, ""); !ok { // C is served after B was accepted (the accept loop is sequential)
			add("a TLS client is not served before Stop")
		}
		stopDone := make(chan error, 1)
		go func() { stopDone <- s.srv.Stop() }()
		time.Sleep(300 * time.Millisecond) // Stop is now inside Close of A
		bServed := false
		var tb *tls.Conn
		if rawB != nil {
			tb = tls.Client(rawB, p.clientConfig(&vc))
			tb.SetDeadline(time.Now().Add(ioTimeout))
			if tb.Handshake() == nil {
				bServed = servedOn(tb, "")
			}
		}
		close(gate)
		select {
		case <-stopDone:
		case <-time.After(5 * time.Second):
			add("Stop did not return within 5 s after the blocked Close was released")
		}
		if tb != nil {
			tb.SetDeadline(time.Now().Add(ioTimeout))
			if _, err := tb.Read(make([]byte, 1)); err == nil || errors.Is(err, os.ErrDeadlineExceeded) {
				add("client B (registered while Stop was running) is still open after Stop")
			}
			rawB.Close()
		}
		if n := len(s.srv.Conns()); n != 0 {
			add(fmt.Sprintf("the registry holds %d connections after Stop", n))
		}
		res["b_served_during_stop"] = bServed
		if a != nil {
			a.Close()
		}
		emit(res)
		go s.srv.Stop()
	}
	// Stop when closing one connection reports an error (a TLS peer that is gone, a wrapped connection): the error is Stop's to
	// return, but every other connection - registered or still shaking hands - is closed all the same and Stop waits for them
	for round := 0; round < rounds; round++ {
		s, err := startSUT(p, "both", false, "")
		if err != nil {
			emit(map[string]any{"error": "start: " + err.Error()})
			continue
		}
		s.srv.RegisterExexutor("FAILCLOSE", func(conn *redis.Conn, cmd string, args redis.Arguments) (*redis.Message, error) {
			conn.Conn = &failCloseConn{Conn: conn.Conn}
			return redis.NewOKMessage(), nil
		})
		res := map[string]any{"round": round, "scenario": "close-error", "problems": []string{}}
		add := func(msg string) { res["problems"] = append(res["problems"].([]string), msg) }
		var plain []net.Conn
		for i := 0; i < 3; i++ {
			c, err := net.DialTimeout("tcp", addr(s.plain), ioTimeout)
			if err != nil {
				add("a client cannot connect: " + err.Error())
				continue
			}
			cmd := "PING"
			if i == round%3 {
				cmd = "FAILCLOSE"
			}
			if _, err := exchange(c, resp(cmd)); err != nil {
				add(cmd + " was not answered: " + err.Error())
			}
			plain = append(plain, c)
		}
		rawB, err := net.DialTimeout("tcp", addr(s.secure), ioTimeout) // accepted, tracked, not registered: it says nothing
		if err != nil {
			add("B cannot connect: " + err.Error())
		}
		vc := p.valid.tlsCert()
		if _, ok := tlsServed(p, s.secure, &vc, ""); !ok {
			add("a TLS client is not served before Stop")
		}
		stopDone := make(chan error, 1)
		go func() { stopDone <- s.srv.Stop() }()
		select {
		case <-stopDone:
		case <-time.After(5 * time.Second):
			add("Stop did not return within 5 s")
		}
		open := 0
		for _, c := range append(plain, rawB) {
			if c == nil {
				continue
			}
			c.SetDeadline(time.Now().Add(time.Second))
			if _, err := c.Read(make([]byte, 1)); err == nil || errors.Is(err, os.ErrDeadlineExceeded) {
				open++
			}
			c.Close()
		}
		if open > 0 {
			add(fmt.Sprintf("%d client connection(s) are still open after Stop returned (closing one connection had reported an error)", open))
		}
		settle(func() bool { return len(s.srv.Conns()) == 0 }, 2*time.Second)
		if n := len(s.srv.Conns()); n != 0 {
			add(fmt.Sprintf("the registry holds %d connections after Stop", n))
		}
		emit(res)
		go s.srv.Stop()
	}
}

// ---------------------------------------------------------------- C13 / C15: many clients at the same moment
// burst <rounds> <clients>: per round, <clients> plain and <clients> TLS clients connect at the SAME moment; each selects its own
// database, then asks three times what the handler sees for its connection (database, UUID): its own database each time, one
// UUID throughout, every request answered; all stay connected (idle) until the round ends, so the N-th concurrent client is
// served like the first.  Then Restart, and once more.  (C13: state per connection; C15: serves every client until Stop.)
func modeBurst(args []string) {
	rounds, clients := 10, 8
	if len(args) > 0 {
		rounds, _ = strconv.Atoi(args[0])
	}
	if len(args) > 1 {
		clients, _ = strconv.Atoi(args[1])
	}
	warmUp()
	p := newPKI()
	defer p.cleanup()
	s, err := startSUT(p, "both", false, "")
	if err != nil {
		emit(map[string]any{"error": "start: " + err.Error()})
		return
	}
	s.srv.RegisterExexutor("CONNSTATE", func(conn *redis.Conn, cmd string, args redis.Arguments) (*redis.Message, error) {
		return redis.NewBulkMessage(fmt.Sprintf("%d:%s", conn.Database(), conn.UUID())), nil
	})
	vc := p.valid.tlsCert()
	for round := 0; round < rounds; round++ {
		res := map[string]any{"round": round, "clients": 2 * clients, "problems": []string{}}
		var mu sync.Mutex
		add := func(msg string) {
			mu.Lock()
			if l := res["problems"].([]string); len(l) < 6 {
				res["problems"] = append(l, msg)
			}
			mu.Unlock()
		}
		// two connections of one client host may share their SOURCE port when they go to different listeners (the 4-tuples differ):
		// they are two connections - two registry entries, each living as long as its own client
		if lp := freePort(); lp > 0 {
			d := net.Dialer{Timeout: ioTimeout, LocalAddr: &net.TCPAddr{IP: net.IPv4(127, 0, 0, 1), Port: lp}, Control: reuseAddr}
			c1, e1 := d.Dial("tcp", addr(s.plain))
			raw2, e2 := d.Dial("tcp", addr(s.secure))
			if e1 == nil && e2 == nil {
				c2 := tls.Client(raw2, p.clientConfig(&vc))
				c2.SetDeadline(time.Now().Add(ioTimeout))
				if c2.Handshake() == nil && servedOn(c2, "") {
					exchange(c1, resp("PING"))
					if n := len(s.srv.Conns()); n != 2 {
						add(fmt.Sprintf("a plain and a TLS connection from the same source port %d are served, the registry holds %d connections", lp, n))
					}
					c1.Close()
					settle(func() bool { return len(s.srv.Conns()) <= 1 }, 2*time.Second)
					time.Sleep(20 * time.Millisecond)
					if n := len(s.srv.Conns()); n != 1 {
						add(fmt.Sprintf("after the plain one of two connections from source port %d has left, the registry holds %d connections (the TLS one is still served)", lp, n))
					}
					if !servedOn(c2, "") {
						add("the TLS connection is no longer served after the plain connection from the same source port has left")
					}
				}
			}
			if c1 != nil {
				c1.Close()
			}
			if raw2 != nil {
				raw2.Close()
			}
			settle(func() bool { return len(s.srv.Conns()) == 0 }, 2*time.Second)
		}
		start := make(chan struct{})
		hold := make(chan struct{})
		var wg, ready sync.WaitGroup
		for i := 0; i < 2*clients; i++ {
			wg.Add(1)
			ready.Add(1)
			go func(i int) {
				defer wg.Done()
				useTLS := i%2 == 1
				<-start
				var c net.Conn
				var err error
				if useTLS {
					var raw net.Conn
					raw, err = net.DialTimeout("tcp", addr(s.secure), ioTimeout)
					if err == nil {
						tc := tls.Client(raw, p.clientConfig(&vc))
						tc.SetDeadline(time.Now().Add(ioTimeout))
						err = tc.Handshake()
						c = tc
						defer raw.Close()
					}
				} else {
					c, err = net.DialTimeout("tcp", addr(s.plain), ioTimeout)
					if err == nil {
						defer c.Close()
					}
				}
				if err != nil {
					add(fmt.Sprintf("client %d (%s) of %d simultaneous clients was not served: %v", i, map[bool]string{true: "TLS", false: "plain"}[useTLS], 2*clients, err))
					ready.Done()
					return
				}
				db := 1 + i%15
				c.SetDeadline(time.Now().Add(ioTimeout))
				if rep, err := exchange(c, resp("SELECT", strconv.Itoa(db))); err != nil || !strings.HasPrefix(rep, "+OK") {
					add(fmt.Sprintf("client %d: SELECT %d was answered %q %v", i, db, rep, err))
				}
				uuid := ""
				for k := 0; k < 3; k++ {
					rep, err := exchange(c, resp("CONNSTATE"))
					if err != nil {
						add(fmt.Sprintf("client %d: request %d after its own SELECT %d was not answered: %v", i, k, db, err))
						break
					}
					f := strings.SplitN(strings.TrimSpace(rep[strings.Index(rep, "\n")+1:]), ":", 2)
					if len(f) != 2 || f[0] != strconv.Itoa(db) {
						add(fmt.Sprintf("client %d: after its own SELECT %d the handler saw database %s (request %d)", i, db, f[0], k))
						break
					}
					if uuid != "" && uuid != f[1] {
						add(fmt.Sprintf("client %d: its requests were served as two different connections (%s, %s)", i, uuid, f[1]))
						break
					}
					uuid = f[1]
				}
				ready.Done()
				<-hold // stay connected: the others must be served while this one idles
			}(i)
		}
		close(start)
		ready.Wait()
		if n := len(s.srv.Conns()); n != 2*clients && len(res["problems"].([]string)) == 0 {
			add(fmt.Sprintf("%d clients are connected and were answered, the registry holds %d connections", 2*clients, n))
		}
		close(hold)
		wg.Wait()
		settle(func() bool { return len(s.srv.Conns()) == 0 }, 3*time.Second)
		if n := len(s.srv.Conns()); n != 0 {
			add(fmt.Sprintf("the registry holds %d connections after every client has disconnected", n))
		}
		if round%3 == 2 {
			if err := s.srv.Restart(); err != nil {
				add("Restart: " + err.Error())
			}
		}
		emit(res)
	}
	s.srv.Stop()
}

func reuseAddr(network, address string, c syscall.RawConn) error {
	var err error
	c.Control(func(fd uintptr) { err = syscall.SetsockoptInt(int(fd), syscall.SOL_SOCKET, syscall.SO_REUSEADDR, 1) })
	return err
}

// failCloseConn closes the socket and reports an error, as tls.Conn.Close does when the peer is gone
type failCloseConn struct{ net.Conn }

func (f *failCloseConn) Close() error {
	f.Conn.Close()
	return errors.New("close: the peer is gone")
}

// ---------------------------------------------------------------- C07: a witness under connection churn and CONFIG SET
// witness <seconds>: two connections loop CONFIG SET, twelve goroutines connect / PING / close, one long-lived witness connection
// does PING / SET / GET and must get the exact reply to each within 3 s; finally Stop must return.
func modeWitness(args []string) {
	secs := 3
	if len(args) > 0 {
		secs, _ = strconv.Atoi(args[0])
	}
	p := newPKI()
	defer p.cleanup()
	s, err := startSUT(p, "plain", false, "")
	if err != nil {
		fmt.Fprintln(os.Stderr, "start:", err)
		p.cleanup() // (deferred calls do not run on os.Exit)
		os.Exit(3)
	}
	deadline := time.Now().Add(time.Duration(secs) * time.Second)
	var wg sync.WaitGroup
	var cfgSets, churns, witnessOK int64
	var failMu sync.Mutex
	firstFail := ""
	fail := func(msg string) {
		failMu.Lock()
		if firstFail == "" {
			firstFail = msg
		}
		failMu.Unlock()
	}
	for w := 0; w < 2; w++ {
		wg.Add(1)
		go func(w int) {
			defer wg.Done()
			c, err := net.DialTimeout("tcp", addr(s.plain), ioTimeout)
			if err != nil {
				return
			}
			defer c.Close()
			for i := 0; time.Now().Before(deadline); i++ {
				if _, err := exchange(c, resp("CONFIG", "SET", "maxclients", strconv.Itoa(i))); err != nil {
					return
				}
				atomic.AddInt64(&cfgSets, 1)
			}
		}(w)
	}
	for w := 0; w < 12; w++ {
		wg.Add(1)
		go func() {
			defer wg.Done()
			for time.Now().Before(deadline) {
				c, err := net.DialTimeout("tcp", addr(s.plain), ioTimeout)
				if err != nil {
					continue
				}
				exchange(c, resp("PING"))
				c.Close()
				atomic.AddInt64(&churns, 1)
			}
		}()
	}
	wg.Add(1)
	go func() {
		defer wg.Done()
		c, err := net.DialTimeout("tcp", addr(s.plain), ioTimeout)
		if err != nil {
			fail("witness cannot connect: " + err.Error())
			return
		}
		defer c.Close()
		for i := 0; time.Now().Before(deadline); i++ {
			v := "v" + strconv.Itoa(i)
			for _, step := range [][2]string{{resp("PING"), "+PONG\r\n"}, {resp("SET", "wit", v), "+OK\r\n"}, {resp("GET", "wit"), fmt.Sprintf("$%d\r\n%s\r\n", len(v), v)}} {
				rep, err := exchange(c, step[0])
				if err != nil || rep != step[1] {
					fail(fmt.Sprintf("witness request %q: reply %q err %v", step[0], rep, err))
					return
				}
			}
			atomic.AddInt64(&witnessOK, 1)
			time.Sleep(time.Millisecond)
		}
	}()
	wg.Wait()
	stopped := make(chan error, 1)
	go func() { stopped <- s.srv.Stop() }()
	stopRet := true
	select {
	case <-stopped:
	case <-time.After(6 * time.Second):
		stopRet = false
	}
	emit(map[string]any{"witness_rounds": atomic.LoadInt64(&witnessOK), "config_sets": atomic.LoadInt64(&cfgSets), "churn": atomic.LoadInt64(&churns),
		"first_failure": firstFail, "stop_returned": stopRet, "seconds": secs})
}

// ---------------------------------------------------------------- C14: concurrent workload for the race detector
// racestress <seconds> <clients> <seed>: clients mix every command family with connection churn, CONFIG SET/GET, registry
// enumeration (Conns / ConnByUUID / Close of an enumerated connection) and Stop / Restart.  Built with -race; the race
// detector's reports are the output (stderr / GORACE log_path).
func modeRaceStress(args []string) {
	secs, clients, seed := 6, 8, 1
	if len(args) > 0 {
		secs, _ = strconv.Atoi(args[0])
	}
	if len(args) > 1 {
		clients, _ = strconv.Atoi(args[1])
	}
	if len(args) > 2 {
		seed, _ = strconv.Atoi(args[2])
	}
	warmUp()
	p := newPKI()
	defer p.cleanup()
	s, err := startSUT(p, "both", true, "")
	if err != nil {
		fmt.Fprintln(os.Stderr, "start:", err)
		p.cleanup() // (deferred calls do not run on os.Exit)
		os.Exit(3)
	}
	// a second Server value in the same process (an application may well run two: a cache and a queue, a public and an admin
	// port): whatever the framework keeps per process rather than per Server is shared by the connection goroutines of both,
	// and no per-Server lock orders those
	s2, err2 := startSUT(p, "plain", false, "")
	if err2 != nil {
		fmt.Fprintln(os.Stderr, "start second server:", err2)
		p.cleanup() // (deferred calls do not run on os.Exit)
		os.Exit(3)
	}
	defer s2.srv.Stop()
	deadline := time.Now().Add(time.Duration(secs) * time.Second)
	var wg sync.WaitGroup
	var ops int64
	for w := 0; w < 4; w++ {
		wg.Add(1)
		go func(w int) {
			defer wg.Done()
			x := uint32(seed*104729+w)*2654435761 + 7
			next := func() int { x ^= x << 13; x ^= x >> 17; x ^= x << 5; return int(x >> 1) }
			for time.Now().Before(deadline) {
				srv := s2
				if w == 3 {
					srv = s
				}
				c, err := net.DialTimeout("tcp", addr(srv.plain), time.Second)
				if err != nil {
					time.Sleep(time.Millisecond)
					continue
				}
				for i := 0; i < 40; i++ {
					pat := fmt.Sprintf("k%d*%c?", next()%500, 'a'+byte(next()%26))
					var cmd []string
					switch next() % 6 {
					case 0:
						cmd = []string{"KEYS", pat}
					case 1:
						cmd = []string{"SCAN", "0", "MATCH", pat}
					case 2:
						cmd = []string{"SET", fmt.Sprintf("k%d", next()%50), "v"}
					case 3:
						cmd = []string{"CONFIG", "SET", "maxmemory", strconv.Itoa(next() % 9)}
					case 4:
						cmd = []string{"CONFIG", "GET", "maxmemory"}
					default:
						cmd = []string{"MGET", "k1", "k2"}
					}
					c.SetDeadline(time.Now().Add(time.Second))
					if _, err := exchange(c, resp(cmd...)); err != nil {
						break
					}
					atomic.AddInt64(&ops, 1)
				}
				c.Close()
			}
		}(w)
	}
	cmds := [][]string{{"PING"}, {"SET", "k", "v"}, {"GET", "k"}, {"INCR", "n"}, {"CONFIG", "SET", "maxmemory", "1"}, {"CONFIG", "GET", "maxmemory", "port"}, {"CONFIG", "SET", "timeout", "300"}, {"CONFIG", "SET", "maxclients", "100", "timeout", "0"},
		{"CONFIG", "SET", "tcp-keepalive", "60"}, {"CONFIG", "GET", "timeout", "maxclients"}, {"SELECT", "1"},
		{"RPUSH", "l", "a"}, {"LPOP", "l"}, {"SADD", "s", "a"}, {"SMEMBERS", "s"}, {"ZADD", "z", "1", "a"}, {"ZRANGE", "z", "0", "-1"}, {"HSET", "h", "f", "v"}, {"HGETALL", "h"},
		{"MSET", "a", "1", "b", "2"}, {"MGET", "a", "b"}, {"KEYS", "*"}, {"DEL", "k"}, {"ECHO", "x"}, {"STRLEN", "k"}, {"APPEND", "k", "x"}, {"WHOAMI"}, {"AUTH", "x"}, {"AUTH", "u", "x"},
		{"SET", "bigk", strings.Repeat("x", 70000)}, {"GET", "bigk"}, {"SET", "bigk2", strings.Repeat("y", 140000), "EX", "1000"}, {"ECHO", strings.Repeat("z", 66000)}}
	for w := 0; w < clients; w++ {
		wg.Add(1)
		go func(w int) {
			defer wg.Done()
			x := uint32(seed*7919+w)*2654435761 + 1
			next := func() int { x ^= x << 13; x ^= x >> 17; x ^= x << 5; return int(x >> 1) }
			vc := p.valid.tlsCert()
			for time.Now().Before(deadline) {
				var c net.Conn
				var raw net.Conn
				var err error
				if next()%3 == 0 {
					raw, err = net.DialTimeout("tcp", addr(s.secure), time.Second)
					if err != nil {
						time.Sleep(time.Millisecond)
						continue
					}
					tc := tls.Client(raw, p.clientConfig(&vc))
					tc.SetDeadline(time.Now().Add(time.Second))
					if tc.Handshake() != nil {
						raw.Close()
						continue
					}
					c = tc
				} else {
					c, err = net.DialTimeout("tcp", addr(s.plain), time.Second)
					if err != nil {
						time.Sleep(time.Millisecond)
						continue
					}
					raw = c
				}
				n := 1 + next()%6
				for i := 0; i < n; i++ {
					cmd := cmds[next()%len(cmds)]
					c.SetDeadline(time.Now().Add(time.Second))
					req := resp(cmd...)
					if next()%6 == 0 {
						// top-level values that are not requests (a status line, an integer, a bulk string, an error): answered with an error reply
						req = []string{"+PING\r\n", ":1\r\n", "$3\r\nfoo\r\n", "-ERR x\r\n", "*0\r\n", "*1\r\n*1\r\n$4\r\nPING\r\n"}[next()%6]
					}
					if _, err := exchange(c, req); err != nil {
						break
					}
					atomic.AddInt64(&ops, 1)
				}
				switch next() % 4 {
				case 0:
					rst(raw)
				case 1:
					exchange(c, resp("QUIT"))
					c.Close()
				default:
					c.Close()
				}
			}
		}(w)
	}
	// credential rotation through the public API while clients authenticate (AUTH, TLS certificate checks)
	wg.Add(1)
	go func() {
		defer wg.Done()
		for time.Now().Before(deadline) {
			s.srv.ClearAuthenticators()
			s.srv.AddAuthenticator(auth.NewCertificateAuthenticatorWith(auth.WithCommonName(ruleName)))
			time.Sleep(3 * time.Millisecond)
		}
	}()
	// registry enumeration
	wg.Add(1)
	go func() {
		defer wg.Done()
		i := 0
		for time.Now().Before(deadline) {
			for _, c := range s.srv.Conns() {
				s.srv.ConnByUUID(c.UUID())
				i++
				if i%7 == 0 {
					time.Sleep(2 * time.Millisecond) // the client may well be gone by now
					c.Close()
				}
			}
			time.Sleep(time.Millisecond)
		}
	}()
	// the API thread
	restarts := 0
	for time.Now().Before(deadline) {
		time.Sleep(250 * time.Millisecond)
		if err := s.srv.Restart(); err != nil {
			fmt.Fprintln(os.Stderr, "restart:", err)
			time.Sleep(50 * time.Millisecond)
			s.srv.Start()
		}
		restarts++
	}
	wg.Wait()
	s.srv.Stop()
	// Stop against a connection that was accepted a moment ago and is the ONLY one: the bookkeeping of a starting connection
	// goroutine (WaitGroup, live set, registry) meets Stop's waits with all counters at zero
	fresh := 0
	x := uint32(seed)*2654435761 + 12345
	for i := 0; i < 150*secs/6+50; i++ {
		if err := s.srv.Start(); err != nil {
			break
		}
		var c net.Conn
		var err error
		if i%3 == 0 {
			c, err = net.DialTimeout("tcp", addr(s.secure), time.Second)
		} else {
			c, err = net.DialTimeout("tcp", addr(s.plain), time.Second)
		}
		x ^= x << 13
		x ^= x >> 17
		x ^= x << 5
		time.Sleep(time.Duration(x%200) * time.Microsecond)
		s.srv.Stop()
		if err == nil {
			c.Close()
			fresh++
		}
	}
	emit(map[string]any{"ops": atomic.LoadInt64(&ops), "restarts": restarts, "clients": clients, "seconds": secs, "stop_after_fresh_accept": fresh})
}

// ---------------------------------------------------------------- idle connections (C03 / C15)
// modeIdle <seconds>: clients connect to both ports, exchange a few commands, stay silent for the given time and go on: a
// connection is served until the client ends it or Stop is called, however long it was idle.
type idleResult struct {
	Conn    string `json:"conn"`
	IdleSec int    `json:"idle_seconds"`
	Before  bool   `json:"served_before"`
	After   bool   `json:"served_after"`
	Note    string `json:"note,omitempty"`
}

func modeIdle(args []string) {
	secs := 35
	if len(args) > 0 {
		secs, _ = strconv.Atoi(args[0])
	}
	warmUp()
	p := newPKI()
	defer p.cleanup()
	s, err := startSUT(p, "both", true, "")
	if err != nil {
		emit(map[string]any{"error": "start: " + err.Error()})
		return
	}
	defer stopGuarded(s.srv)
	type cl struct {
		name string
		c    net.Conn
	}
	var cls []cl
	if c, err := net.DialTimeout("tcp", addr(s.plain), ioTimeout); err == nil {
		cls = append(cls, cl{"plain", c})
	}
	vc := p.valid.tlsCert()
	for _, ver := range []uint16{tls.VersionTLS12, tls.VersionTLS13} {
		if raw, err := net.DialTimeout("tcp", addr(s.secure), ioTimeout); err == nil {
			cc := p.clientConfig(&vc)
			cc.MaxVersion = ver
			tc := tls.Client(raw, cc)
			tc.SetDeadline(time.Now().Add(ioTimeout))
			if err := tc.Handshake(); err == nil {
				cls = append(cls, cl{fmt.Sprintf("tls1.%d", ver-tls.VersionTLS10), tc})
			} else {
				emit(idleResult{Conn: fmt.Sprintf("tls1.%d", ver-tls.VersionTLS10), IdleSec: secs, Note: "handshake: " + err.Error()})
			}
		}
	}
	res := make([]idleResult, len(cls))
	for i, x := range cls {
		res[i] = idleResult{Conn: x.name, IdleSec: secs}
		r1, e1 := exchange(x.c, resp("PING"))
		r2, e2 := exchange(x.c, resp("SET", "idle:"+x.name, "v"))
		res[i].Before = e1 == nil && e2 == nil && strings.HasPrefix(r1, "+PONG") && strings.HasPrefix(r2, "+OK")
	}
	time.Sleep(time.Duration(secs) * time.Second)
	for i, x := range cls {
		r1, e1 := exchange(x.c, resp("PING"))
		r2, e2 := exchange(x.c, resp("GET", "idle:"+x.name))
		r3, e3 := exchange(x.c, resp("ECHO", "still-here"))
		res[i].After = e1 == nil && e2 == nil && e3 == nil && strings.HasPrefix(r1, "+PONG") && strings.HasPrefix(r2, "$1\r\nv") && strings.HasPrefix(r3, "$10\r\nstill-here")
		if !res[i].After {
			res[i].Note = fmt.Sprintf("after the pause: PING -> %q (%v) ; GET -> %q (%v) ; ECHO -> %q (%v)", r1, e1, r2, e2, r3, e3)
		}
		x.c.Close()
		emit(res[i])
	}
}
