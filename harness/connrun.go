package main

import (
	"fmt"
	"runtime"
	"strconv"
	"strings"
	"sync"
	"sync/atomic"
	"time"

	"crypto/tls"
	"crypto/x509"
	"crypto/x509/pkix"
	exserver "github.com/cybergarage/go-redis/examples/go-redisd/server"
	"github.com/cybergarage/go-redis/redis"
	"github.com/cybergarage/go-redis/redis/auth"
)

type connCase struct {
	pw      string
	hasPw   bool
	app     []string
	table   map[string]hres
	def     hres
	conns   int
	steps   [][2]string // (conn index, op)
	trace   bool
	example bool     // the bundled example store is the handler (no double)
	par     bool     // each connection's steps run in their own goroutine (free interleaving)
	tls     []string // per connection: p = plain; n = TLS without client certificate; c<hex> = TLS with that leaf common name
	rule    string
	hasRule bool
	prep    string // "reauth": the application clears the authenticators and restarts the server before any connection is served
	authvia string // "exec": the application registered its own AUTH executor, which calls the public Server.Auth; "msg": the application installed its own AuthCommandHandler, which rejects with an error REPLY (nil Go error)
	cfail   []bool // per connection: closing the socket reports an error (as tls.Conn.Close does when close_notify cannot be sent)
}

func parseCase(line string) connCase {
	c := connCase{table: map[string]hres{}, def: hres{kind: 'm', tree: "s(4f4b)"}, conns: 1, trace: true}
	for _, f := range strings.Fields(line) {
		kv := strings.SplitN(f, "=", 2)
		if len(kv) != 2 {
			continue
		}
		k, v := kv[0], kv[1]
		switch k {
		case "pw":
			if v != "-" {
				c.hasPw = true
				c.pw = string(unhx(v[1:])) // "h<hex>" so that the empty password is expressible as "h-"
			}
		case "app":
			if v != "-" {
				for _, a := range strings.Split(v, ",") {
					c.app = append(c.app, string(unhx(a)))
				}
			}
		case "tbl":
			if v != "-" {
				for _, e := range strings.Split(v, ";") {
					i := strings.IndexByte(e, '=')
					c.table[e[:i]] = parseHres(e[i+1:])
				}
			}
		case "def":
			c.def = parseHres(v)
		case "conns":
			c.conns, _ = strconv.Atoi(v)
		case "trace":
			c.trace = v == "1"
		case "handler":
			c.example = v == "example"
		case "par":
			c.par = v == "1"
		case "tls": // per connection, comma separated: p = plain, n = TLS without client certificate, c<hex> = TLS, leaf common name
			c.tls = strings.Split(v, ",")
		case "prep":
			c.prep = v
		case "authvia":
			c.authvia = v
		case "cfail":
			for _, x := range strings.Split(v, ",") {
				c.cfail = append(c.cfail, x == "1")
			}
		case "rule": // the common name a client certificate must carry (certificate authenticator)
			if v != "-" {
				c.rule = string(unhx(v))
				c.hasRule = true
			}
		case "steps":
			if v != "-" {
				for _, s := range strings.Split(v, ";") {
					i := strings.IndexByte(s, ':')
					c.steps = append(c.steps, [2]string{s[:i], s[i+1:]})
				}
			}
		}
	}
	return c
}

type connRun struct {
	pc   *pipeConn
	log  *evlog
	done chan string
	res  string
}

const stepTimeout = 4 * time.Second

func runConnCase(c connCase) string {
	var srv *redis.Server
	if c.example {
		srv = exserver.NewServer().Server
	} else {
		srv = redis.NewServer()
	}
	srv.SetPort(0)
	if c.hasPw {
		srv.SetRequirePass(c.pw)
	}
	if c.hasRule {
		srv.AddAuthenticator(auth.NewCertificateAuthenticatorWith(auth.WithCommonName(c.rule)))
	}
	switch c.authvia {
	case "exec":
		// an embedding application's own AUTH command (same argument forms as the built-in one) on top of the public Server.Auth
		srv.RegisterExexutor("AUTH", func(conn *redis.Conn, cmd string, args redis.Arguments) (*redis.Message, error) {
			first, err := args.NextString()
			if err != nil {
				return nil, err
			}
			user, passwd := "", first
			if msg, _ := args.Next(); msg != nil {
				second, err := msg.String()
				if err != nil {
					return nil, err
				}
				user, passwd = first, second
			}
			return srv.Auth(conn, user, passwd)
		})
	case "msg":
		srv.SetAuthCommandHandler(&msgAuthHandler{srv: srv})
	}
	d := &double{table: c.table, def: c.def, srv: srv}
	if !c.example {
		srv.SetCommandHandler(d)
	}
	runs := make([]*connRun, c.conns)
	for i := range runs {
		l := &evlog{}
		runs[i] = &connRun{pc: newPipeConn(l), log: l, done: make(chan string, 1)}
		d.logs.Store(runs[i].pc, l)
	}
	var goLogs sync.Map // goroutine id -> *evlog: the tracer API carries no connection, spans are attributed by goroutine
	if c.trace {
		srv.SetTracer(&dTracer{logOf: func() *evlog {
			if v, ok := goLogs.Load(goid()); ok {
				return v.(*evlog)
			}
			return &evlog{}
		}})
	}
	for _, name := range c.app {
		nm := name
		srv.RegisterExexutor(nm, func(conn *redis.Conn, cmd string, args redis.Arguments) (*redis.Message, error) {
			d.logOf(conn).add("APP:" + hx([]byte(strings.ToUpper(nm))))
			return redis.NewStringMessage("APP"), nil
		})
	}
	if err := srv.Start(); err != nil {
		return "START-ERROR " + err.Error()
	}
	if c.prep == "reauth" {
		// an application that reloads its authenticators at run time: the password the configuration requires must still
		// be enforced after the restart
		srv.ClearAuthenticators()
		if c.hasRule {
			srv.AddAuthenticator(auth.NewCertificateAuthenticatorWith(auth.WithCommonName(c.rule)))
		}
		if err := srv.Restart(); err != nil {
			return "START-ERROR restart: " + err.Error()
		}
	}
	for i, r := range runs {
		if i < len(c.cfail) && c.cfail[i] {
			r.pc.closeFails = true
		}
	}
	started := make([]bool, len(runs))
	var startMu sync.Mutex
	start := func(i int) { // a connection is "accepted" when the script first mentions it
		startMu.Lock()
		if started[i] {
			startMu.Unlock()
			return
		}
		started[i] = true
		startMu.Unlock()
		r := runs[i]
		go func() {
			res := "ret"
			goLogs.Store(goid(), r.log)
			defer func() {
				if p := recover(); p != nil {
					msg := strings.ReplaceAll(fmt.Sprint(p), " ", "_")
					if len(msg) > 100 {
						msg = msg[:100]
					}
					res = "PANIC(" + msg + ")"
				}
				r.done <- res
			}()
			srv.VerifServeConn(r.pc, tlsStateOf(c.tls, i))
		}()
	}
	waitQuiet := func(r *connRun) bool { // blocked on Read with nothing pending, or returned
		deadline := time.After(stepTimeout)
		for {
			if r.res != "" {
				return true
			}
			if b, _ := r.pc.isBlockedOrDone(); b {
				return true
			}
			select {
			case res := <-r.done:
				r.res = res
				return true
			case <-r.pc.signal:
			case <-time.After(2 * time.Millisecond):
			case <-deadline:
				return false
			}
		}
	}
	waitDone := func(r *connRun) bool {
		if r.res != "" {
			return true
		}
		select {
		case res := <-r.done:
			r.res = res
			return true
		case <-time.After(stepTimeout):
			return false
		}
	}
	var hangFlag int32
	doStep := func(ci int, op string) {
		start(ci)
		r := runs[ci]
		switch op[0] {
		case 'f':
			r.log.add(fmt.Sprintf("I:%d", atomic.AddInt64(&lclock, 1))) // logical time of the invocation
			r.pc.feed(unhx(op[1:]))
			if !waitQuiet(r) {
				r.log.add("!HANG")
				atomic.StoreInt32(&hangFlag, 1)
			} else {
				r.log.add("Q") // quiescent: everything delivered so far has been processed
			}
		case 'g':
			r.pc.feed(unhx(op[1:]))
		case 'c': // c<n>: from now on no Read returns more than n bytes (a slow link: many small segments)
			n, _ := strconv.Atoi(op[1:])
			r.pc.mu.Lock()
			r.pc.readCap = n
			r.pc.mu.Unlock()
		case 'E': // E<hex>: the last bytes and the end of the stream arrive together (one Read returns n > 0 and io.EOF)
			r.pc.feedFinal(unhx(op[1:]))
			if !waitDone(r) {
				r.log.add("!HANG")
				atomic.StoreInt32(&hangFlag, 1)
			}
		case 'G': // release the handler call that waits on "slowkey"; then everything delivered so far is processed
			// let the other connections reach the command lock: each has taken everything that was sent to it off its socket
			// (and is therefore past its read, inside the request), then a little more time to get from the parser to the lock
			for _, r2 := range runs {
				if r2 == r {
					continue
				}
				for k := 0; k < 400; k++ {
					r2.pc.mu.Lock()
					pending := len(r2.pc.chunks)
					r2.pc.mu.Unlock()
					if pending == 0 {
						break
					}
					time.Sleep(5 * time.Millisecond)
				}
			}
			time.Sleep(60 * time.Millisecond)
			gateRelease()
			if !waitQuiet(r) {
				r.log.add("!HANG")
				atomic.StoreInt32(&hangFlag, 1)
			}
		case 'w':
			r.pc.mu.Lock()
			r.pc.wfail = true
			r.pc.mu.Unlock()
		case 'z': // z<ms>: wall-clock time passes (timers the server armed may fire)
			ms, _ := strconv.Atoi(op[1:])
			time.Sleep(time.Duration(ms) * time.Millisecond)
		case 's': // the client stops reading; s<n>: n more bytes fit into the socket buffers
			n, _ := strconv.Atoi(op[1:])
			r.pc.stallWrites(n)
		case 'S': // Server.Stop while the connections are in whatever state the script left them: it must return
			done := make(chan error, 1)
			go func() { done <- srv.Stop() }()
			select {
			case <-done:
				r.log.add("STOP-RET")
			case <-time.After(stepTimeout):
				r.log.add("!STOP-HANG")
				r.log.add("!HANG")
				atomic.StoreInt32(&hangFlag, 1)
			}
		case 'u': // the client reads again
			r.pc.resumeWrites()
			if !waitQuiet(r) {
				r.log.add("!HANG")
				atomic.StoreInt32(&hangFlag, 1)
			}
		case 'e', 'r', 'x':
			if op[0] == 'x' {
				r.pc.mu.Lock()
				r.pc.wfail = true
				r.pc.mu.Unlock()
			}
			r.pc.finish(op[0] == 'r')
			if !waitDone(r) {
				r.log.add("!HANG")
				atomic.StoreInt32(&hangFlag, 1)
			}
		}
	}
	if c.par {
		// free interleaving: one goroutine per connection plays that connection's steps in order
		per := make([][]string, len(runs))
		for _, st := range c.steps {
			ci, _ := strconv.Atoi(st[0])
			per[ci] = append(per[ci], st[1])
		}
		var wg sync.WaitGroup
		gate := make(chan struct{}) // all players start together
		for ci := range per {
			if len(per[ci]) > 0 {
				start(ci)
			}
			wg.Add(1)
			go func(ci int) {
				defer wg.Done()
				<-gate
				for _, op := range per[ci] {
					if atomic.LoadInt32(&hangFlag) != 0 {
						return
					}
					doStep(ci, op)
				}
			}(ci)
		}
		close(gate)
		wg.Wait()
	} else {
		for _, st := range c.steps {
			if atomic.LoadInt32(&hangFlag) != 0 {
				break
			}
			ci, _ := strconv.Atoi(st[0])
			doStep(ci, st[1])
		}
	}
	hang := atomic.LoadInt32(&hangFlag) != 0
	var sb strings.Builder
	for i, r := range runs {
		if !hang && r.res == "" {
			start(i)
			r.pc.finish(false)
			if !waitDone(r) {
				r.log.add("!HANG")
				hang = true
			}
		}
		res := r.res
		if res == "" {
			res = "HANG"
		}
		if i > 0 {
			sb.WriteString(";;")
		}
		sb.WriteString(fmt.Sprintf("conn%d=%s|%s", i, res, strings.Join(r.log.snapshot(), "~")))
	}
	nconns := len(srv.Conns())
	if !hang {
		srv.Stop()
	}
	sb.WriteString(fmt.Sprintf(";;final=%d", nconns))
	return sb.String()
}

// tlsStateOf: the TLS connection state a scripted connection is served with (nil = plain TCP).  The handshake itself is not
// part of the scripted runs (C09 runs real handshakes); this is the state `receive` is handed after it.
func tlsStateOf(spec []string, i int) *tls.ConnectionState {
	if i >= len(spec) || spec[i] == "" || spec[i] == "p" {
		return nil
	}
	st := &tls.ConnectionState{HandshakeComplete: true}
	if spec[i][0] == 'c' {
		st.PeerCertificates = []*x509.Certificate{{Subject: pkix.Name{CommonName: string(unhx(spec[i][1:]))}}}
	}
	return st
}

// modeConn: one case per line; out "<idx> <observation>"
func modeConn(args []string) {
	idx := 0
	stdinLines(func(line string) {
		if strings.TrimSpace(line) == "" {
			return
		}
		fmt.Fprintf(out, "%d %s\n", idx, runConnCase(parseCase(line)))
		idx++
	})
}

// goid returns the current goroutine's id (parsed from the stack header; test harness only).
func goid() uint64 {
	var buf [64]byte
	n := runtime.Stack(buf[:], false)
	f := strings.Fields(string(buf[:n]))
	if len(f) < 2 {
		return 0
	}
	id, _ := strconv.ParseUint(f[1], 10, 64)
	return id
}

// msgAuthHandler is an application's AuthCommandHandler that decides like the built-in one but reports a rejection the way the
// server itself reports unsupported commands: as an error reply with a nil Go error.
type msgAuthHandler struct{ srv *redis.Server }

func (h *msgAuthHandler) Auth(conn *redis.Conn, username string, password string) (*redis.Message, error) {
	m, err := h.srv.Auth(conn, username, password)
	if err != nil {
		return redis.NewErrorMessage(err), nil
	}
	return m, nil
}
