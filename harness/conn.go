package main

import (
	"context"
	"errors"
	"fmt"
	"io"
	"math"
	"math/big"
	"net"
	"sort"
	"strconv"
	"strings"
	"sync"
	"sync/atomic"
	"time"

	"github.com/cybergarage/go-redis/redis"
	"github.com/cybergarage/go-redis/redis/proto"
	"github.com/cybergarage/go-tracing/tracer"
)

// lclock is a logical clock shared by all connections of the process: invocation and response events of the
// histories judged for linearizability (C16) are stamped from it.
var lclock int64

// ---------------------------------------------------------------- event log (one per connection)
type evlog struct {
	mu  sync.Mutex
	evs []string
}

func (l *evlog) add(s string) {
	l.mu.Lock()
	l.evs = append(l.evs, s)
	l.mu.Unlock()
}

func (l *evlog) snapshot() []string {
	l.mu.Lock()
	defer l.mu.Unlock()
	return append([]string{}, l.evs...)
}

// ---------------------------------------------------------------- scripted connection
// pipeConn is a net.Conn fed by the controller. Read delivers what was fed (at most len(p), at most the
// current chunk); when nothing is available it reports "blocked" to the controller and waits.
type pipeConn struct {
	mu          sync.Mutex
	cond        *sync.Cond
	chunks      [][]byte
	eof         bool // no more input will come: Read returns io.EOF once drained
	reset       bool // Read returns an error (connection reset) once drained
	closed      int  // number of Close calls
	delivered   int
	blocked     bool
	wfail       bool // writes fail (client stopped reading / closed)
	stall       bool // the client has stopped reading: writes are absorbed up to wcap bytes, then block
	wcap        int  // bytes the (virtual) socket buffers still take while stalled
	wdeadline   bool // a write deadline is set (SetWriteDeadline / SetDeadline with a non-zero time)
	wblocked    bool // a Write is waiting for the client to read
	closeFails  bool // Close closes, and reports an error (tls.Conn.Close when the peer is gone)
	rdeadline   bool // a read deadline is set
	rtimedout   bool // the current wait for input already produced its timeout
	log         *evlog
	signal      chan struct{} // poked on: blocked, closed, write
	eofWithData bool          // the final Read returns its bytes together with io.EOF
	readCap     int           // > 0: no Read returns more than this many bytes
}

func newPipeConn(log *evlog) *pipeConn {
	c := &pipeConn{log: log, signal: make(chan struct{}, 1)}
	c.cond = sync.NewCond(&c.mu)
	return c
}

func (c *pipeConn) poke() {
	select {
	case c.signal <- struct{}{}:
	default:
	}
}

func (c *pipeConn) feed(b []byte) {
	if len(b) == 0 {
		return
	}
	c.mu.Lock()
	c.chunks = append(c.chunks, b)
	c.blocked = false
	c.rtimedout = false
	c.cond.Broadcast()
	c.mu.Unlock()
}

// feedFinal delivers the last bytes and the end of the stream at once
func (c *pipeConn) feedFinal(b []byte) {
	c.mu.Lock()
	if len(b) > 0 {
		c.chunks = append(c.chunks, b)
		c.eofWithData = true
	}
	c.eof = true
	c.blocked = false
	c.stall = false
	c.cond.Broadcast()
	c.mu.Unlock()
}

func (c *pipeConn) finish(reset bool) {
	c.mu.Lock()
	c.eof = true
	c.reset = reset
	c.blocked = false
	c.stall = false // the scripted client is gone or drains what is left: a waiting Write goes on (or fails, with wfail)
	c.cond.Broadcast()
	c.mu.Unlock()
}

func (c *pipeConn) Read(p []byte) (int, error) {
	c.mu.Lock()
	defer c.mu.Unlock()
	for {
		if c.closed > 0 {
			return 0, net.ErrClosed
		}
		if len(c.chunks) > 0 {
			if c.readCap > 0 && len(p) > c.readCap {
				p = p[:c.readCap] // the transport hands over at most readCap bytes per Read, however large the buffer offered
			}
			n := copy(p, c.chunks[0])
			c.chunks[0] = c.chunks[0][n:]
			if len(c.chunks[0]) == 0 {
				c.chunks = c.chunks[1:]
			}
			c.delivered += n
			if c.eofWithData && c.eof && !c.reset && len(c.chunks) == 0 {
				// the io.Reader contract allows the last bytes and the end of the stream in ONE call (crypto/tls does it when
				// the close_notify alert is already buffered behind the data)
				return n, io.EOF
			}
			return n, nil
		}
		if c.eof {
			if c.reset {
				return 0, errors.New("read: connection reset by peer")
			}
			return 0, io.EOF
		}
		if c.rdeadline && !c.rtimedout {
			// virtual time: the client pauses longer than any read deadline, once per gap in its transmission.  A server
			// that gives up the wait must not lose what it had already read of the request.
			c.rtimedout = true
			return 0, timeoutErr{}
		}
		c.blocked = true
		c.poke()
		c.cond.Wait()
	}
}

// timeoutErr is what a Write returns when its deadline expires (net.Error with Timeout() == true).
type timeoutErr struct{}

func (timeoutErr) Error() string   { return "i/o timeout" }
func (timeoutErr) Timeout() bool   { return true }
func (timeoutErr) Temporary() bool { return true }

func (c *pipeConn) Write(p []byte) (int, error) {
	c.mu.Lock()
	defer c.mu.Unlock()
	if c.closed > 0 {
		return 0, net.ErrClosed
	}
	if c.wfail {
		c.log.add(fmt.Sprintf("WX@%d:%s", c.delivered, hx(p)))
		return 0, errors.New("write: broken pipe")
	}
	if c.stall && len(p) > c.wcap {
		// the client is not reading: the socket buffers take wcap more bytes, then the write waits.  Virtual time: the
		// client stays away longer than any deadline, so a write with a deadline fails with a timeout after the partial
		// transfer, and a write without one waits until the client reads again (or goes away).
		n := c.wcap
		c.wcap = 0
		c.log.add(fmt.Sprintf("WP@%d:%s", c.delivered, hx(p[:n])))
		if c.wdeadline {
			c.poke()
			return n, timeoutErr{}
		}
		c.wblocked = true
		c.poke()
		for c.stall && c.closed == 0 && !c.wfail {
			c.cond.Wait()
		}
		c.wblocked = false
		if c.closed > 0 {
			return n, net.ErrClosed
		}
		if c.wfail {
			return n, errors.New("write: broken pipe")
		}
		c.log.add(fmt.Sprintf("WC@%d:%s", c.delivered, hx(p[n:])))
		c.log.add(fmt.Sprintf("T:%d", atomic.AddInt64(&lclock, 1)))
		c.poke()
		return len(p), nil
	}
	if c.stall {
		c.wcap -= len(p)
	}
	c.log.add(fmt.Sprintf("W@%d:%s", c.delivered, hx(p)))
	c.log.add(fmt.Sprintf("T:%d", atomic.AddInt64(&lclock, 1))) // logical time of the response
	c.poke()
	return len(p), nil
}

// stallWrites: the client stops reading; n more bytes fit into the socket buffers.
func (c *pipeConn) stallWrites(n int) {
	c.mu.Lock()
	c.stall, c.wcap = true, n
	c.mu.Unlock()
}

// resumeWrites: the client reads again.
func (c *pipeConn) resumeWrites() {
	c.mu.Lock()
	c.stall = false
	c.cond.Broadcast()
	c.mu.Unlock()
}

func (c *pipeConn) Close() error {
	c.mu.Lock()
	c.closed++
	first := c.closed == 1
	c.log.add("CLOSE")
	c.cond.Broadcast()
	fails := c.closeFails
	c.mu.Unlock()
	c.poke()
	if fails && first {
		return errors.New("tls: failed to send closeNotify alert (but connection was closed anyway)")
	}
	return nil
}

func (c *pipeConn) isBlockedOrDone() (bool, bool) {
	c.mu.Lock()
	defer c.mu.Unlock()
	return (c.blocked && len(c.chunks) == 0) || c.wblocked, c.closed > 0
}

type dummyAddr string

func (a dummyAddr) Network() string { return "pipe" }
func (a dummyAddr) String() string  { return string(a) }

func (c *pipeConn) LocalAddr() net.Addr  { return dummyAddr("local") }
func (c *pipeConn) RemoteAddr() net.Addr { return dummyAddr("remote") }
func (c *pipeConn) SetReadDeadline(t time.Time) error {
	c.mu.Lock()
	c.rdeadline = !t.IsZero()
	c.mu.Unlock()
	return nil
}
func (c *pipeConn) SetDeadline(t time.Time) error {
	c.SetReadDeadline(t)
	return c.SetWriteDeadline(t)
}
func (c *pipeConn) SetWriteDeadline(t time.Time) error {
	c.mu.Lock()
	c.wdeadline = !t.IsZero()
	c.mu.Unlock()
	return nil
}

// ---------------------------------------------------------------- tracer double
type dTracer struct{ logOf func() *evlog }

func (t *dTracer) SetPackageName(string) {}
func (t *dTracer) SetServiceName(string) {}
func (t *dTracer) SetEndpoint(string)    {}
func (t *dTracer) PackageName() string   { return "" }
func (t *dTracer) ServiceName() string   { return "" }
func (t *dTracer) Endpoint() string      { return "" }
func (t *dTracer) Start() error          { return nil }
func (t *dTracer) Stop() error           { return nil }
func (t *dTracer) StartSpan(name string) tracer.Context {
	l := t.logOf()
	l.add("RS")
	ctx := &dContext{log: l}
	ctx.stack = []*dSpan{{ctx: ctx, name: name, root: true}}
	return ctx
}

type dSpan struct {
	ctx      *dContext
	name     string
	root     bool
	finished bool
}

func (s *dSpan) SetTag(string, any) {}
func (s *dSpan) Finish() {
	if s.finished {
		s.ctx.log.add("!DOUBLE-FINISH(" + s.name + ")")
		return
	}
	s.finished = true
	if s.root {
		if len(s.ctx.stack) != 1 {
			s.ctx.log.add(fmt.Sprintf("!ROOT-FINISHED-WITH-%d-OPEN-CHILDREN", len(s.ctx.stack)-1))
		}
		s.ctx.log.add("RF")
	} else {
		s.ctx.log.add("!CHILD-FINISHED-AS-ROOT(" + s.name + ")")
	}
}

// a handler call that waits: the script holds it (the command lock is held meanwhile) until step G
var handlerGate = struct {
	mu sync.Mutex
	ch chan struct{}
}{ch: make(chan struct{})}

func gateWait() {
	handlerGate.mu.Lock()
	ch := handlerGate.ch
	handlerGate.mu.Unlock()
	select {
	case <-ch:
	case <-time.After(10 * time.Second):
	}
}

func gateRelease() {
	handlerGate.mu.Lock()
	close(handlerGate.ch)
	handlerGate.ch = make(chan struct{})
	handlerGate.mu.Unlock()
}
func (s *dSpan) Context() context.Context             { return nil }
func (s *dSpan) StartSpan(name string) tracer.Context { return s.ctx }

type dContext struct {
	log   *evlog
	stack []*dSpan
}

func (c *dContext) Span() tracer.Span {
	if len(c.stack) == 0 {
		// go-tracing's span stack (tracer/common) answers nil here: whoever finishes that span dereferences nil
		c.log.add("!SPAN-OF-EMPTY-STACK")
		return nil
	}
	return c.stack[len(c.stack)-1]
}
func (c *dContext) StartSpan(name string) bool {
	if len(c.stack) == 0 {
		c.log.add("!CHILD-STARTED-ON-EMPTY-STACK(" + name + ")")
		return false
	}
	if c.stack[0].finished {
		c.log.add("!CHILD-STARTED-AFTER-ROOT-FINISH(" + name + ")")
	}
	c.stack = append(c.stack, &dSpan{ctx: c, name: name})
	c.log.add("SS:" + hx([]byte(name)))
	return true
}
func (c *dContext) FinishSpan() bool {
	if len(c.stack) == 0 {
		c.log.add("!FINISH-WITHOUT-OPEN-CHILD")
		return false
	}
	top := c.stack[len(c.stack)-1]
	c.stack = c.stack[:len(c.stack)-1]
	if top.root {
		// as the library does: the root is popped and finished like any other span - and is no longer there for the caller
		c.log.add("!FINISH-WITHOUT-OPEN-CHILD")
		c.stack = append(c.stack, top) // Finish() below inspects the stack
		top.Finish()
		c.stack = c.stack[:len(c.stack)-1]
		return true
	}
	if top.finished {
		c.log.add("!DOUBLE-FINISH(" + top.name + ")")
	}
	top.finished = true
	c.log.add("SF")
	return true
}

// ---------------------------------------------------------------- handler double
// scripted result: what the handler returns for a call
type hres struct {
	kind byte // 'm' message, 'n' nil/nil, 'e' error, 'b' message+error, 'q' OK + ErrQuit
	tree string
	text string
}

func parseHres(s string) hres {
	switch s[0] {
	case 'n':
		return hres{kind: 'n'}
	case 'q':
		return hres{kind: 'q'}
	case 'e':
		return hres{kind: 'e', text: string(unhx(s[1:]))}
	case 'm':
		return hres{kind: 'm', tree: s[1:]}
	case 'b':
		i := strings.LastIndexByte(s, '|')
		return hres{kind: 'b', tree: s[1:i], text: string(unhx(s[i+1:]))}
	}
	panic("bad hres " + s)
}

func (r hres) build() (*redis.Message, error) {
	switch r.kind {
	case 'n':
		return nil, nil
	case 'q':
		return redis.NewOKMessage(), redis.ErrQuit
	case 'e':
		return nil, errors.New(r.text)
	case 'm':
		m, _ := parseTree(r.tree)
		return m, nil
	default:
		m, _ := parseTree(r.tree)
		return m, errors.New(r.text)
	}
}

type double struct {
	table map[string]hres // "Method:keyhex"
	def   hres
	logs  sync.Map // *redis.Conn -> *evlog
	srv   *redis.Server
}

func (d *double) logOf(conn *redis.Conn) *evlog {
	v, ok := d.logs.Load(conn.Conn)
	if !ok {
		return &evlog{}
	}
	return v.(*evlog)
}

func b01(b bool) string {
	if b {
		return "1"
	}
	return "0"
}

func hxs(l []string) string {
	p := make([]string, len(l))
	for i, s := range l {
		p[i] = hx([]byte(s))
	}
	return "[" + strings.Join(p, ",") + "]"
}

func ratOf(x float64) string {
	if math.IsInf(x, 1) {
		return "+inf"
	}
	if math.IsInf(x, -1) {
		return "-inf"
	}
	if math.IsNaN(x) {
		return "nan"
	}
	r := new(big.Rat)
	r.SetFloat64(x)
	return r.Num().String() + "/" + r.Denom().String()
}

func (d *double) answer(conn *redis.Conn, method string, key string, text string) (*redis.Message, error) {
	l := d.logOf(conn)
	// connection-scoped state as seen by the handler; per-connection user data (sync.Map) token
	// per-connection user data: everything currently in the connection's map (written by earlier Set calls on it)
	var ud []string
	conn.Range(func(k, v any) bool {
		ud = append(ud, fmt.Sprint(k)+"="+fmt.Sprint(v))
		return true
	})
	sort.Strings(ud)
	tok := "-"
	if len(ud) > 0 {
		tok = strings.Join(ud, ",")
	}
	if method == "Set" {
		conn.Store("ud"+hx([]byte(key)), hx([]byte(text))[:8])
	}
	reg := 0
	for _, c := range d.srv.Conns() {
		if c == conn {
			reg = 1
		}
	}
	l.add(fmt.Sprintf("C:%d:%s:%s:%d:%s", conn.Database(), b01(conn.IsAuthrized()), tok, reg, method+text))
	r, ok := d.table[method+":"+hx([]byte(key))]
	if !ok {
		r = d.def
	}
	if key == "slowkey" { // the call stays inside the handler (and the command lock) until the script releases it
		l.add("GATE")
		gateWait()
	}
	return r.build()
}

func zropt(o redis.ZRangeOption) string {
	return fmt.Sprintf("byscore=%s,bylex=%s,rev=%s,withscores=%s,minex=%s,maxex=%s,offset=%d,count=%d",
		b01(o.BYSCORE), b01(o.BYLEX), b01(o.REV), b01(o.WITHSCORES), b01(o.MINEXCLUSIVE), b01(o.MAXEXCLUSIVE), o.Offset, o.Count)
}

func (d *double) Del(c *redis.Conn, keys []string) (*redis.Message, error) {
	return d.answer(c, "Del", first(keys), "("+hxs(keys)+")")
}
func (d *double) Exists(c *redis.Conn, keys []string) (*redis.Message, error) {
	return d.answer(c, "Exists", first(keys), "("+hxs(keys)+")")
}
func (d *double) Expire(c *redis.Conn, key string, o redis.ExpireOption) (*redis.Message, error) {
	delta := o.Time.Sub(time.Now())
	return d.answer(c, "Expire", key, fmt.Sprintf("(%s,t=%d;%d,nx=%s,xx=%s,gt=%s,lt=%s)", hx([]byte(key)), o.Time.Unix(),
		int64(math.Round(delta.Seconds())), b01(o.NX), b01(o.XX), b01(o.GT), b01(o.LT)))
}
func (d *double) Keys(c *redis.Conn, p string) (*redis.Message, error) {
	return d.answer(c, "Keys", p, "("+hx([]byte(p))+")")
}
func (d *double) Rename(c *redis.Conn, k, n string, o redis.RenameOption) (*redis.Message, error) {
	return d.answer(c, "Rename", k, fmt.Sprintf("(%s,%s,nx=%s)", hx([]byte(k)), hx([]byte(n)), b01(o.NX)))
}
func (d *double) Type(c *redis.Conn, k string) (*redis.Message, error) {
	return d.answer(c, "Type", k, "("+hx([]byte(k))+")")
}
func (d *double) TTL(c *redis.Conn, k string) (*redis.Message, error) {
	return d.answer(c, "TTL", k, "("+hx([]byte(k))+")")
}
func (d *double) Scan(c *redis.Conn, cur int, o redis.ScanOption) (*redis.Message, error) {
	src := "nil"
	if o.MatchPattern != nil {
		src = hx([]byte(o.MatchPattern.String()))
	}
	return d.answer(c, "Scan", "", fmt.Sprintf("(%d,match=%s,count=%d,type=%d)", cur, src, o.Count, int(o.Type)))
}
func optTime(t time.Time) string {
	if t.IsZero() {
		return "-"
	}
	return strconv.FormatInt(t.UnixMilli(), 10)
}
func (d *double) Set(c *redis.Conn, k, v string, o redis.SetOption) (*redis.Message, error) {
	return d.answer(c, "Set", k, fmt.Sprintf("(%s,%s,ex=%d,px=%d,exat=%s,pxat=%s,nx=%s,xx=%s,keepttl=%s,get=%s)", hx([]byte(k)), hx([]byte(v)),
		int64(o.EX), int64(o.PX), optTime(o.EXAT), optTime(o.PXAT), b01(o.NX), b01(o.XX), b01(o.KEEPTTL), b01(o.GET)))
}
func (d *double) Get(c *redis.Conn, k string) (*redis.Message, error) {
	return d.answer(c, "Get", k, "("+hx([]byte(k))+")")
}
func (d *double) HDel(c *redis.Conn, k string, f []string) (*redis.Message, error) {
	return d.answer(c, "HDel", k, "("+hx([]byte(k))+","+hxs(f)+")")
}
func (d *double) HSet(c *redis.Conn, k, f, v string, o redis.HSetOption) (*redis.Message, error) {
	return d.answer(c, "HSet", k, fmt.Sprintf("(%s,%s,%s,nx=%s)", hx([]byte(k)), hx([]byte(f)), hx([]byte(v)), b01(o.NX)))
}
func (d *double) HGet(c *redis.Conn, k, f string) (*redis.Message, error) {
	return d.answer(c, "HGet", k, "("+hx([]byte(k))+","+hx([]byte(f))+")")
}
func (d *double) HGetAll(c *redis.Conn, k string) (*redis.Message, error) {
	return d.answer(c, "HGetAll", k, "("+hx([]byte(k))+")")
}
func (d *double) LPush(c *redis.Conn, k string, e []string, o redis.PushOption) (*redis.Message, error) {
	return d.answer(c, "LPush", k, "("+hx([]byte(k))+","+hxs(e)+",x="+b01(o.X)+")")
}
func (d *double) RPush(c *redis.Conn, k string, e []string, o redis.PushOption) (*redis.Message, error) {
	return d.answer(c, "RPush", k, "("+hx([]byte(k))+","+hxs(e)+",x="+b01(o.X)+")")
}
func (d *double) LPop(c *redis.Conn, k string, n int) (*redis.Message, error) {
	return d.answer(c, "LPop", k, fmt.Sprintf("(%s,%d)", hx([]byte(k)), n))
}
func (d *double) RPop(c *redis.Conn, k string, n int) (*redis.Message, error) {
	return d.answer(c, "RPop", k, fmt.Sprintf("(%s,%d)", hx([]byte(k)), n))
}
func (d *double) LRange(c *redis.Conn, k string, s, e int) (*redis.Message, error) {
	return d.answer(c, "LRange", k, fmt.Sprintf("(%s,%d,%d)", hx([]byte(k)), s, e))
}
func (d *double) LIndex(c *redis.Conn, k string, i int) (*redis.Message, error) {
	return d.answer(c, "LIndex", k, fmt.Sprintf("(%s,%d)", hx([]byte(k)), i))
}
func (d *double) LLen(c *redis.Conn, k string) (*redis.Message, error) {
	return d.answer(c, "LLen", k, "("+hx([]byte(k))+")")
}
func (d *double) SAdd(c *redis.Conn, k string, m []string) (*redis.Message, error) {
	return d.answer(c, "SAdd", k, "("+hx([]byte(k))+","+hxs(m)+")")
}
func (d *double) SMembers(c *redis.Conn, k string) (*redis.Message, error) {
	return d.answer(c, "SMembers", k, "("+hx([]byte(k))+")")
}
func (d *double) SRem(c *redis.Conn, k string, m []string) (*redis.Message, error) {
	return d.answer(c, "SRem", k, "("+hx([]byte(k))+","+hxs(m)+")")
}
func (d *double) ZAdd(c *redis.Conn, k string, ms []*redis.ZSetMember, o redis.ZAddOption) (*redis.Message, error) {
	p := make([]string, len(ms))
	for i, m := range ms {
		p[i] = ratOf(m.Score) + ":" + hx([]byte(m.Member))
	}
	return d.answer(c, "ZAdd", k, fmt.Sprintf("(%s,[%s],xx=%s,nx=%s,lt=%s,gt=%s,ch=%s,incr=%s)", hx([]byte(k)), strings.Join(p, ","),
		b01(o.XX), b01(o.NX), b01(o.LT), b01(o.GT), b01(o.CH), b01(o.INCR)))
}
func (d *double) ZRange(c *redis.Conn, k string, s, e int, o redis.ZRangeOption) (*redis.Message, error) {
	return d.answer(c, "ZRange", k, fmt.Sprintf("(%s,%d,%d,%s)", hx([]byte(k)), s, e, zropt(o)))
}
func (d *double) ZRangeByScore(c *redis.Conn, k string, mn, mx float64, o redis.ZRangeOption) (*redis.Message, error) {
	return d.answer(c, "ZRangeByScore", k, fmt.Sprintf("(%s,%s,%s,%s)", hx([]byte(k)), ratOf(mn), ratOf(mx), zropt(o)))
}
func (d *double) ZRem(c *redis.Conn, k string, m []string) (*redis.Message, error) {
	return d.answer(c, "ZRem", k, "("+hx([]byte(k))+","+hxs(m)+")")
}
func (d *double) ZScore(c *redis.Conn, k, m string) (*redis.Message, error) {
	return d.answer(c, "ZScore", k, "("+hx([]byte(k))+","+hx([]byte(m))+")")
}
func (d *double) ZIncBy(c *redis.Conn, k string, inc float64, m string) (*redis.Message, error) {
	return d.answer(c, "ZIncBy", k, fmt.Sprintf("(%s,%s,%s)", hx([]byte(k)), ratOf(inc), hx([]byte(m))))
}

func first(l []string) string {
	if len(l) == 0 {
		return ""
	}
	return l[0]
}

var _ redis.UserCommandHandler = (*double)(nil)
var _ = proto.ErrEOM
var _ = sort.Strings
