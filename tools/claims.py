# claims.py — one claim(...) per property whose check exists; read by tools/mkmanifest.py
PENDING = {}
TB = ("Trusted: Coq 8.16.1 kernel (vm_compute in reflexive steps, no native_compute); no axioms (Print Assumptions parsed on every run: Closed under the global context); "
      "the model is hand-written and tied to /repo by differential execution on every run (extraction with ExtrOcamlBasic only, OCaml glue, Go harness, python compare). ")

claim("C01",
      "Theorems (unbounded sizes, arity, nesting): parse (encode v ++ rest) = (v, rest) for every well-formed value tree; every canonically encoded byte string parses and "
      "re-serialises to itself (grammar written independently of the serialiser); bulk payloads carry no hypothesis (binary safe) and the prefix is the payload length; "
      "Atoi(Itoa z) = z on all of int64. The model's encode/parse are tied to proto.Message.RESPBytes / proto.Parser by differential execution on exhaustive small trees "
      "and random large ones; the message constructors (incl. float) are checked against Go directly.",
      TB + "NewFloatMessage / strconv float conversion is tested, not proved (not modelled).",
      "Coq theorems (round trip, canonical re-encode) + differential execution of the extracted codec model vs redis/proto")
claim("C02",
      "Theorems: for every reader (any partition of the stream into reads) the Read-driven parser returns what the flat parser returns on the concatenation and leaves the same "
      "bytes; any value sequence in any partition parses to exactly those values then end of stream. Tied to proto.Parser behind a scripted chunking reader: every 2-way split, "
      "1-byte delivery and random k-way partitions.",
      TB + "Transport assumption: Read never returns (0, nil) and reports EOF separately from data.",
      "Coq theorem (chunked parser = flat parser) + differential execution over scripted chunkings")
claim("C06",
      "Theorems: for every byte string and every chunking the parser returns a value, end of stream or an error - never a panic (makeslice from a declared count/length, index out of "
      "range) and never runs out of fuel; end of stream inside an array is an error; a value consumes a non-empty prefix. The parser model is exact on ALL inputs and is compared "
      "with proto.Parser on structure-aware mutations, boundary length/count edits and near-valid streams (outcome class, tree, bytes consumed); allocation bombs run in a child "
      "process under a memory limit.",
      TB + "Go stack exhaustion from >10^5 nesting levels is a resource limit outside the model.",
      "Coq totality theorem + differential execution on hostile streams")
claim("C17",
      "Theorem (all patterns, all keys, unbounded): the regular-expression text built from a glob lies in a parsed RE2 fragment (so compilation cannot fail) and its anchored "
      "dot-all match equals the glob relation; the text function and the match results are tied to redis/glob by differential execution over the complete pattern x key space "
      "up to length 3 (4 thorough) plus random longer ones, with an independent direct matcher as monitor.",
      TB + "Go regexp semantics on the fragment are modelled by Glob.re_parse/re_match; ASCII domain.",
      "Coq theorem + differential execution of extracted model vs glob.Compile")
