# claims.py — one claim(...) per property whose check exists; read by tools/mkmanifest.py
PENDING = {}
# what the correspondence runs explore beyond the first description (added after the rounds of seeded changes, DESIGN section 7)
EXTRA_CORR = {
 "C01": " Also: arrays of 1023..4096 elements (around the parser's pre-allocation cap), bulks around 4 KiB / 16 KiB / 64 KiB. A value serialized twice, and changed through its public API after its first serialization.",
 "C02": " Also: values on the same thresholds followed by further values, splits a few bytes either side of every value boundary; chunked pipelines through the server's connection loop with the client pausing at every cut (read deadlines in virtual time). A neighbour parser of the same process fed malformed streams in between (all processors / one). The last read returning its bytes together with io.EOF. Theorem C02_any_end_of_stream_delivery: a transport modelled as a list of Read outcomes (bytes / bytes with an error / an error), read through the data-first adapter, yields exactly the values of the bytes delivered.",
 "C03": " Also: a second client that does not read its large replies (this connection's requests must still be answered). Every pair of extreme integers as offset/count and start/stop of the derived range commands; a request sent after an idle pause on plain / TLS connections (pause = durations found in the source + 2 s, 35 s in the thorough tier). Patterns with translator-relevant characters at their edges (trailing backslash, unclosed bracket) in SCAN MATCH.",
 "C04": " Also: a client that stops reading mid-reply (partial writes, write deadlines in virtual time; nothing may follow a truncated frame); a reply pending for a slow client while other connections' replies are encoded and written. Handler results of 1023 .. 4097 elements, flat and nested, followed by further requests. Handler results of a type outside the five, alone and inside arrays.",
 "C05": " Also: requests delivered in k-way chunks and one chunk per element; arguments of 4 KiB .. 70 KB. Replies collected from several handler calls (MGET, HMGET) with one call failing. Line-type handler results that are not valid UTF-8.",
 "C06": " Also: arrays beyond the pre-allocation cap cut at / around every element boundary near the cap and its doublings; a 20 s watchdog per parse (a parser that does not return is a violation). Every byte value as type byte in front of ten length / payload shapes.",
 "C07": " Also: an offender that pipelines large replies and never reads them; a real-socket run with CONFIG SET loops, connection churn and a witness connection with exact replies. 24 plain and TLS clients connecting at the same moment, each served on its own socket. One element named more often than its container has elements.",
 "C08": " Theorem C08_password_gate_any_transport: the same gate for connections of any transport (plain, TLS with any verified chain) and servers with further authenticators. Also explored: histories on TLS connections with and without a certificate rule. AUTH implemented by the built-in executor, by an application executor on the public Server.Auth, and by an application AuthCommandHandler replying errors as messages; commands without an executor (HELLO 3) before AUTH.",
 "C09": " Also: a foreign CA that the HOST trusts (system trust store); client-CA rotation followed by Restart (retired-CA clients refused, new-CA clients let in). Password changes (CONFIG SET requirepass; SetRequirePass + Restart, twice) followed by clients the rule turns away; seven near-miss common names (case, U+017F, blanks, one character less / more). A server certificate file that bundles an intermediate of another hierarchy, and a client certificate issued by that intermediate.",
 "C10": " Also: malformations and ill-formed SELECTs on a connection that has selected database 3 (the selection must survive the refusal). 28 non-float tokens incl. doubled parentheses, blanks, digit separators. Theorem C10_digit_separators_are_not_floats: a token containing an underscore is not a float of the argument grammar (plain or as a range bound).",
 "C11": " Also: a request of 1030 .. 4100 elements cut at / around every element boundary near 1024 and its doublings. Requests written as text lines cut at every byte (a line without its CR LF is a partial request).",
 "C12": " Also: replies of 513 .. 4098 elements (ZREVRANGE / ZREVRANGEBYSCORE / HKEYS / HVALS / HMGET / MGET). CONFIG parameter names in mixed case.",
 "C13": " Also: two-argument AUTH and CONFIG SET requirepass in the histories (another connection's authorization must not move). The three AUTH implementations of C08 rotated over the password cases. Every split of the password as (user, password) on a second connection after the first authenticated.",
 "C14": " The translator also tracks elements of shared slices / maps and local aliases used after the lock was released; the stress also rotates credentials (ClearAuthenticators / AddAuthenticator) and sends 66 .. 140 KB values. Process-wide state: package-level variables written at run time are rows credited with package-level locks only; a second Server in the stress process; non-request top-level values.",
 "C15": " Also: TLS clients whose certificate is refused / whose handshake fails (registry exactness); both ports enabled without a certificate (Start fails; Stop must release what was opened). Clients idling on plain / TLS 1.2 / TLS 1.3 connections (see C03). Clients that send QUIT and keep their socket open (no goroutine and no open server side left at Stop).",
 "C16": " Also: a server with a password where every client first sends a refused command, then AUTH, then works. Empty values in the histories. Keys with a TTL that were overwritten, read back after the TTL ran out. The same write twice in a row by one client while others write the key.",
 "C17": " Also: non-ASCII characters (valid UTF-8); SCAN continued from a non-zero cursor with another pattern on the same connection; complete SCAN iterations (SCAN 0, then the returned cursors until 0) for every COUNT in {1,2,3,5,10,n-1,n,n+1} beside the store model, the collected keys compared with KEYS. Eight goroutines compiling and matching at once; every alphabetic string literal of the source (option words, command names) as a literal pattern. The pattern as a simple string in the middle of three segments.",
 "C18": "",
 "C19": " Also: stray line breaks / lone type bytes before FIN; Server.Stop while a reply write waits for a stalled client, while idle and inside a request. A certificate rejected WITH an error value by an application authenticator (revocation list). A watchdog reports a server that no longer answers instead of hanging. A reader stalled longer than every duration found in the source, with more replies pending than the socket buffers hold.",
 "C20": "",
}
TB = ("Trusted: Coq 8.16.1 kernel (vm_compute in reflexive steps, no native_compute); no axioms (Print Assumptions parsed on every run: Closed under the global context); "
      "the model is hand-written and tied to /repo by differential execution on every run (extraction with ExtrOcamlBasic only, OCaml glue, Go harness, python compare). ")

claim("C01",
      "Theorems (unbounded sizes, arity, nesting): parse (encode v ++ rest) = (v, rest) for every well-formed value tree; every canonically encoded byte string parses and "
      "re-serialises to itself (grammar written independently of the serialiser); bulk payloads carry no hypothesis (binary safe) and the prefix is the payload length; "
      "Atoi(Itoa z) = z on all of int64. The model's encode/parse are tied to proto.Message.RESPBytes / proto.Parser by differential execution on exhaustive small trees "
      "and random large ones; the message constructors (incl. float) are checked against Go directly.",
      TB + "NewFloatMessage / strconv float conversion is tested, not proved (not modelled).",
      "Coq theorems (round trip, canonical re-encode) + differential execution of the extracted codec model vs redis/proto")
claim("C02",
      "Theorems: for every reader (any partition of the stream into reads) the Read-driven parser returns what the flat parser returns on the concatenation and leaves the same "
      "bytes; any value sequence in any partition parses to exactly those values then end of stream. Tied to proto.Parser behind a scripted chunking reader: every 2-way split, "
      "1-byte delivery and random k-way partitions.",
      TB + "Transport assumption of the theorem: Read never returns (0, nil) and reports the end of the stream by itself; a Read that returns its last bytes together with io.EOF is covered by the correspondence run only (fix df93189).",
      "Coq theorem (chunked parser = flat parser) + differential execution over scripted chunkings")
claim("C06",
      "Theorems: for every byte string and every chunking the parser returns a value, end of stream or an error - never a panic (makeslice from a declared count/length, index out of "
      "range) and never runs out of fuel; end of stream inside an array is an error; a value consumes a non-empty prefix. The parser model is exact on ALL inputs and is compared "
      "with proto.Parser on structure-aware mutations, boundary length/count edits and near-valid streams (outcome class, tree, bytes consumed); allocation bombs run in a child "
      "process under a memory limit.",
      TB + "Go stack exhaustion from >10^5 nesting levels is a resource limit outside the model.",
      "Coq totality theorem + differential execution on hostile streams")
claim("C17",
      "Theorem (all patterns, all keys, unbounded): the regular-expression text built from a glob lies in a parsed RE2 fragment (so compilation cannot fail) and its anchored "
      "dot-all match equals the glob relation; the text function and the match results are tied to redis/glob by differential execution over the complete pattern x key space "
      "up to length 3 (4 thorough) plus random longer ones, with an independent direct matcher as monitor. KEYS and SCAN MATCH agree: on the model of the example store (Store.v), for every "
      "database, pattern and COUNT, the client's SCAN iteration (SCAN 0, then the returned cursors until 0) ends within (keys + 1) calls and collects a permutation of the KEYS reply.",
      TB + "Go regexp semantics on the fragment are modelled by Glob.re_parse/re_match; ASCII domain.",
      "Coq theorem + differential execution of extracted model vs glob.Compile")

CONN_TB = TB + ("The connection model (Conn.serve: receive loop, dispatcher, ~70 executors, reply writer, span events) is parameterised by an ARBITRARY application handler; "
                "it is compared with the real receive loop (VerifServeConn, build tag verif) through a scripted net.Conn, a recording handler double and a tracer double. ")
claim("C03",
      "Theorems, for every application handler: (1) for every sequence of well-formed RESP values sent as requests (any command, any arguments) the connection writes exactly one "
      "frame per processed request, the i-th being the reply to the i-th request, and all requests are processed unless an earlier one ended the loop with QUIT; (2) for EVERY input "
      "byte string the loop terminates without panic; (3) the trace after the first k bytes of a pipeline equals the trace of the stream that ends after the last complete request, "
      "so replies never wait for later input; (4) QUIT in any letter case: +OK, loop ends, no handler call; (5) nothing behind QUIT is executed or answered; (6) a handler error "
      "becomes an error reply and the loop continues. Correspondence: every registered command x systematic argument shapes, random pipelines of 1..8 requests (incl. requests with "
      ">1024 elements), whole / byte-by-byte / k-way / pipelined delivery; monitors: reply count, each reply written when exactly its request's bytes were delivered, watchdog.",
      CONN_TB + "Liveness is judged at scripted blocking reads; goroutine scheduling below that is the Go runtime's.",
      "Coq theorems over the connection model (all handlers) + differential execution against the real connection loop")
claim("C04",
      "Theorems, for every handler (any message type and payload, nil, error text, message+error), every client BYTE stream and every framework error text: everything written is a "
      "list of frames each in the RESP2 grammar resp2 (written independently of the serializer: no CR/LF inside status/error/integer lines, bulk prefix = payload length, array "
      "prefix = element count), one per loop iteration; uninterpretable requests (non-array, empty array, null / integer / error command name) and handlers returning nothing get an "
      "error frame. Correspondence: raw output bytes vs model and an independent strict RESP2 decoder, every handler-result shape x pass-through and post-processing commands, forged "
      "frames in every client-controlled position, and a length sweep 0..1100 of CR/LF-carrying line payloads.",
      CONN_TB + "A handler-built integer reply with a non-numeric payload is framed but not a RESP integer (reported separately, outside the theorem).",
      "Coq theorem (writes are frames of an independent RESP2 grammar, all handlers and inputs) + differential execution with strict decoder monitor")
claim("C11",
      "Theorems: a strict prefix of a client request never parses to a value (prefix-freedom under the parser's end-of-stream leniency); for every pipeline, handler and EVERY cut "
      "offset the whole trace (calls with arguments, replies, spans, deregistration, close) equals that of the stream ending after the last complete request; the connection is "
      "deregistered and closed. Correspondence: every byte offset of generated pipelines as end of stream with half-close and full close: calls, replies, Close seen, registry empty, loop returned.",
      CONN_TB + "Domain: requests are arrays of non-null bulk strings (what clients send).",
      "Coq theorems (prefix-freedom, cut-anywhere trace equality) + exhaustive cut enumeration against the real loop")
claim("C20",
      "Theorem, for every handler, configuration, TLS entry outcome and EVERY input byte string: the span events of the connection trace are balanced (one root per iteration "
      "finished once and last, children only inside a root and finished innermost-first, nothing left open), via a structure theorem: trace = register, complete iterations, optional "
      "closing iteration, deregister, close. Correspondence: a tracer double records the real span events for pipelines mixing every outcome x every ending; the same balance predicate runs as a monitor.",
      CONN_TB + "The tracer library itself (go-tracing) is replaced by a double.",
      "Coq theorem (balanced span trace for all inputs and handlers) + differential execution with tracer double")
claim("C05",
      "Theorems, for every handler: decode(print r) = expect r for EVERY valid request r of an independent typed grammar of the 38 commands that map onto one handler operation "
      "(39 constructors; option lists in any order with validity predicates, any letter case of option words, any accepted numeral, exclusive-range markers, durations/timestamps, "
      "1..k list elements) - exactly one handler call with exactly those arguments, result passed through; lifted through the dispatcher for any letter case of the command name, "
      "on the issuing connection's database, state untouched; unknown command: error and no event; application executors dispatched for any casing; reply = handler's message. "
      "Correspondence: per command 45 (600 thorough) generated vectors incl. boundary integers, exactly representable floats, binary strings, equal keys, three casings; expected "
      "call and reply come from the Python grammar, not from the model; recorded (deep-copied) handler calls compared.",
      CONN_TB + "ASCII names (strings.ToUpper is Unicode-aware); float tokens limited to decimal literals exactly representable in binary64 and infinities (strconv.ParseFloat not modelled).",
      "Coq theorem decode∘print = id over a typed command grammar (all handlers) + differential execution with recording handler double")
claim("C10",
      "Theorems, for every handler: for ANY argument list a single-operation command is either refused with no event at all or is exactly one handler call (no partial execution); "
      "every strict prefix of the required arguments of every valid request is refused; odd or empty key/value lists (MSET MSETNX HMSET CONFIG SET) and a score without member (ZADD) "
      "are refused; a non-positive SET expiry is refused in any context; the SET option parser accepts EXACTLY the option grammar (so every repeated / combined exclusive option, "
      "bad operand and unknown word is refused); a null or other non-value element anywhere in the part of ANY argument list a command reads is refused (all 39 request forms); a token "
      "that is not an int64 numeral / float / score bound where one is required, and a numeral outside the accepted expiry range, is refused for ANY argument list. Correspondence: every command of the grammar x every position omitted / null / non-numeric, overflowing, "
      "fractional tokens (swept above the int64-safe expiry limits incl. products that wrap to positive) x pair lists cut odd x every SET option clash, enumerated completely, each "
      "followed by PING/ECHO and GET to show the connection is unaffected; model and implementation must both reject with zero calls.",
      CONN_TB + "ZRANGE and SCAN ignore unknown option words (the code's behaviour, mirrored); only SET has a completeness theorem ('accepts exactly the grammar'), the other commands have position-wise refusal theorems.",
      "Coq theorems (no partial execution; missing/dangling arguments refused) + exhaustive malformation enumeration against the real loop")
MULTI_TB = CONN_TB + "Several connections are modelled as request-level interleavings over one shared server and handler state (Multi.mstep); the command lock of the code makes that the real granularity. "
claim("C07",
      "Theorems, for every handler that returns: one loop iteration never panics for ANY request value (empty / null / nested command arrays, every command with every argument "
      "vector; GETRANGE index arithmetic proved inside the value over all of Z; nil handler results everywhere); the parser and the whole connection loop never panic or diverge on "
      "ANY byte string; in a system of any number of connections a step of one connection leaves every other connection's state and log untouched and never sets the panic flag. "
      "Runtime half observed: offender + witness connections on one server with the bundled example store and with the handler double - ~900 boundary-argument requests against "
      "populated keys of every type, hostile frames and stream ends, very long requests, random cut pipelines, EOF/reset/write-failure endings; the witness must get exact replies, "
      "the process must survive.",
      MULTI_TB + "Partial: process survival and the example store's robustness are observed, not proved (the example store is not modelled function by function).",
      "Coq theorems (panic-freedom of framework and parser, isolation) + offender/witness differential runs incl. the example store")
claim("C08",
      "Theorems, for every handler, any number of connections and EVERY interleaving of their requests: a connection on which any handler or application executor was invoked has an AUTH "
      "with exactly the configured password (default user) among its own earlier processed requests; AUTH succeeds iff its credentials are exactly ('', password); a refused AUTH leaves "
      "authorization and database unchanged; an unauthorized connection produces no call for a request of any shape; a step of one connection never changes another. Correspondence: "
      "all histories of length <= 2 over the full candidate dictionary (every prefix, extension, case swap, NUL/CRLF, null/missing, two-argument forms) and length 3 over a reduced one "
      "on one connection, all interleavings of pairs of histories on two, random on three; independent Python oracle for 'exact password'.",
      MULTI_TB + "The password is the one installed by Start (SetRequirePass before Start).",
      "Coq invariant proof over all interleavings (password gate) + exhaustive short-history enumeration against the real loop")
claim("C13",
      "Theorems, for every handler and EVERY interleaving: the state of connection i (database, authorization, credentials) equals the fold of cs_step - a function of the authenticator "
      "list, that connection's previous state and the request only - over connection i's own processed requests from the defaults; every handler call carries the database and "
      "authorization of the issuing connection as of before the request; a step of j != i leaves connection i untouched. Correspondence: 2..8 scripted connections under the race "
      "detector, all interleavings of two systematic histories, sequential reuse, random lock-step and free parallel interleavings; each call's database / authorization / "
      "per-connection user data checked against the connection's own history by a Python oracle and against the model.",
      MULTI_TB + "Per-connection user data (sync.Map) is exercised by the handler double and checked by the oracle; it is not part of the Coq connection state.",
      "Coq theorem (own-history fold, frame) + concurrent differential runs under the race detector")
claim("C16",
      "Theorems: the executable linearizability checker is sound (an accepted history has a permutation that reproduces every observed reply under the sequential reference semantics "
      "of the commands - one loop iteration over the Redis reference primitives - and respects real-time order); executing commands one at a time (what the command lock around "
      "handleMessage provides) yields linearizable histories for every command sequence and store; without atomicity the property is refuted (two INCRs with reads before both writes "
      "reply 1, 1). The extracted checker judges real histories: 2..8 connections play GET/SET/SETNX/GETSET/INCR/DECRBY/APPEND/MSETNX/DEL concurrently (start barrier, free interleaving) "
      "against the example store through the real loop, with invocation/response stamped from one logical clock: systematic contention shapes x 2/4/8 clients, random histories over 1..3 keys.",
      MULTI_TB + "Static tie, regenerated from the source on every run by the lockset translator: every call site into the command handler is under one exclusive lock "
      "(gen/HandlerAccess.v, handler_table_ok re-proved by computation). Partial: the translator is trusted; the Go scheduler decides which interleavings the recorded histories contain.",
      "Coq-verified linearizability checker (extracted) judging recorded concurrent histories + theorem for atomic execution and refutation without it + handler-call lock table regenerated from source")
STORE_TB = CONN_TB + ("The reference is Redis.dprim (transcribed from the Redis command reference, itself unverified), run under the same connection model; replies Redis leaves "
                      "unordered are sorted and scores compared as exact numbers before comparison. ")
claim("C12",
      "Theorems (the derived executors of the model over the Redis reference primitives, for ALL databases and argument values): GETRANGE/SUBSTR never panic and reply with Redis' "
      "clamped substring for every length/start/end in int64; ZREVRANGE is exactly the descending-order slice with member/score pairs intact (index reflection proved over all of Z); "
      "INCR/DECR/INCRBY/DECRBY store and reply old+delta iff the value is a canonical int64 numeral and the sum stays in int64, else error and nothing stored; MSETNX is all-or-nothing; "
      "MGET / HMGET reply in request order (nil for missing); MSET / HMSET store the last value per key / field; ZREVRANGEBYSCORE is the descending list inside the bounds with LIMIT and "
      "WITHSCORES applied to that order, options in any order; STRLEN, APPEND, HKEYS/HVALS (same pairs, same order)/HLEN, HEXISTS/HSTRLEN, SCARD, SISMEMBER, ZCARD, PING, ECHO, CONFIG SET/GET (request order, "
      "last stored value). Correspondence: framework + bundled example store through the real loop vs the model: GETRANGE lengths 0..6 x start,end -9..9 and ZREVRANGE sizes 0..5 x "
      "start,stop -7..7 with/without scores (exhaustive), ZREVRANGEBYSCORE LIMIT grids, counters at int64 boundaries and on non-integers, random programs with final-state probes.",
      STORE_TB + "HKEYS/HVALS order is the reference's insertion order (the Go map order is arbitrary; compared as sets).",
      "Coq theorems (derived executors over reference primitives = Redis semantics) + exhaustive index grids against framework + example store")
claim("C18",
      "Theorems: Store.sprim is a function-by-function model of the bundled example store (slice-backed List / Set / ZSet with their loops, map-backed Hash and record table); "
      "on EVERY well-formed database and EVERY call whose key is absent or holds the command's data type it computes exactly the reply and the next database of the Redis reference "
      "Redis.dprim (C18_store_refines_reference; lifted to programs). About the reference, for EVERY database and operation: every primitive operation (hence every program) preserves "
      "the invariant - keys unique, one entry per hash field / set member / sorted-set member, sorted sets in non-decreasing score order, no empty container stored; values come back "
      "byte for byte and other keys are untouched; RPUSH/LPUSH/LRANGE/LPOP order; EXISTS/DEL/RENAME (moves; onto itself keeps). Correspondence: the bundled example server through the "
      "real connection loop vs the store model on every program of length 1 and 2 (and sampled / all of length 3) per data type over a small pool, random programs to length 40, "
      "mixed-type programs, infinite scores, each followed by a final-state probe of every pool key.",
      STORE_TB + "Modelled, not verified: the Go code of examples/go-redisd/server (tie = the differential run against Store.sprim); expiry (EXPIRE/TTL) and SCAN's cursor are not "
      "modelled. Two reply shapes the handler interface cannot express are recorded findings.",
      "Coq refinement proof (example-store model = Redis reference on typed calls) + invariant proof over all programs + exhaustive short-program differential runs against the example server")
LIFE_TB = TB + ("Lifecycle.v models Start/Stop/Restart, the accept loops, the connection goroutines, the registry and the two WaitGroups of redis/server.go as a transition system "
                "whose schedules are arbitrary label lists; its executable scheduler (life_model, extracted) is compared with a real server over loopback sockets. ")
claim("C15",
      "Theorems, for every schedule (any interleaving of API steps, accept-loop steps, connection-goroutine steps and client arrivals, any length, any number of clients): an inductive "
      "invariant (21 clauses: WaitGroup counters = live goroutines, registry = registered connections, every unfinished connection goroutine has its socket in the live set, listener fields point to open listeners owned by live accept loops, ...) holds in "
      "every reachable state; hence while running every enabled port has an open listener with a live accept loop that accepts an arriving client; at the moment Stop returns no "
      "listener is open, the registry is empty, every accept loop and connection goroutine has returned with its socket closed; outside Stop's close phase the registry is exactly "
      "the connections between registration and deregistration; Stop terminates (C15_stop_terminates: a measure every enabled step decreases, progress, closed sockets). Correspondence: every legal Start/Stop/Restart sequence up to length 4 (6 thorough) x {plain, TLS, both ports} with "
      "clients connecting / idling / disconnecting, random longer ones: per-step observations equal the model's prediction, and serving / re-bindable ports / closed clients / empty "
      "registry / goroutine baseline are checked on the real server.",
      LIFE_TB + "Partial: the interleavings explored on the implementation are those the Go scheduler produces (no forced schedule points); kernel listen backlog and TIME_WAIT are outside the model; "
      "Stop's termination is proved on the model (every execution after the listeners are closed is bounded by a measure, is never stuck before Stop returns, and waits only on closed sockets), "
      "with Stop's two snapshots (registry, then live set) as two atomic steps and 'a closed socket ends its goroutine's read' assumed of the Go runtime; one forced schedule (stoprace) ties that step to the code.",
      "Coq inductive invariant over all schedules of a lifecycle transition system + model-vs-server runs of lifecycle sequences")
claim("C19",
      "Theorems: for EVERY input byte string, handler and entry outcome the connection trace registers once first (iff let in), deregisters and closes exactly once last, and touches "
      "neither registry nor socket in between; a rejected certificate only closes; the loop always ends. Over all schedules of the lifecycle system a finished goroutine has closed its socket "
      "and a failed handshake / rejected certificate releases that connection without touching the registry. Runtime half observed: scripted connections with every request outcome x every "
      "ending (boundary, mid-request, protocol error, reset, write failure), and churn over real sockets - 11 ending modes (FIN, mid-request FIN, RST, QUIT, malformed, client stops "
      "reading, TLS close_notify, TLS RST, failed handshake, rejected certificate, stalled handshake) alone and mixed with 1/8/32 in flight, then Stop with open connections: registry, "
      "goroutine count and descriptors back at baseline.",
      LIFE_TB + CONN_TB + "Partial: what the kernel does with a closed socket, and baselines polled with a 4 s grace period, are observations.",
      "Coq theorems (release on every exit path; lifecycle invariant) + churn over real sockets with goroutine/descriptor/registry baselines")
claim("C09",
      "Theorems: a TLS connection that is not let in (common-name rule configured and the verified chain's LEAF does not carry the name, or no certificate) produces the trace [close] - "
      "nothing is registered, read, executed or answered - for every input; admission compares the leaf only (names on intermediates are irrelevant); over all schedules a failed or rejected "
      "handshake ends only that connection and leaves listeners, accept loops, registry and all other connections unchanged. The finite space is enumerated completely against real "
      "crypto/tls: {no rule, rule, rule+password} x {none, plain text, self-signed, foreign CA, expired, wrong name, name only on an intermediate, valid, valid under a neutral intermediate} "
      "x {complete, abort after ClientHello, stall, garbage} x order: executed-for-client and immediate service of a valid TLS client and a plain client afterwards.",
      LIFE_TB + "Partial: X.509 path validation and the TLS state machine are an oracle (the handshake outcome is an input of the model).",
      "Coq theorems (gate on the leaf name, containment of failed handshakes) + complete enumeration against crypto/tls")
claim("C14",
      "Theorem (all traces: any number of threads, any interleaving): under mutex / RW-mutex semantics, if every access is made holding the locks its row of a static access table "
      "promises and the table passes the executable check (every two rows that may conflict - same field, a write, threads that may run together, not both the goroutine's own object - "
      "share a lock, held exclusively by writers), then any two conflicting accesses of different threads are separated by a release of that lock by the first and an acquisition by the "
      "second (release->acquire = happens-before: no data race). The table is REGENERATED from the Go source on every run by a translator (go/packages + go/types: ~140 access rows over "
      "~28 shared fields of packages redis and redis/auth, roles api/accept/conn, lock regions and call-graph propagation) and `check table = true` is re-proved by vm_compute. Runtime half: "
      "concurrent workloads (8..32 clients, every command family, CONFIG SET/GET, TLS+plain churn with FIN/RST/QUIT, registry enumeration with Close, Restart every 250 ms) under the Go "
      "race detector - the failing-schedule search and the validation of the translator.",
      TB.replace("the model is hand-written and tied to /repo by differential execution on every run", "the access table is generated from /repo's source on every run by the lockset translator") +
      "Partial: the translator (syntactic lock regions, over-approximated dynamic dispatch, configuration setters not a role, one API thread) is trusted and validated only by the race detector; "
      "that sync.Mutex implements the modelled semantics and that the Go memory model orders release before acquire are assumptions.",
      "Coq lockset theorem + access table regenerated from source (translator) re-checked by computation + race-detector stress")
