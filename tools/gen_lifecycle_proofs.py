#!/usr/bin/env python3
"""Generates the invariant-preservation lemmas of coq/theories/LifecycleFacts.v (appended after the marker line).
The proofs have one tactic per invariant clause, in the order of the record fields; clauses a step does not touch
default to `keep I`."""
import sys
CL=["nodup","ids","cwg","reg","done","lnodup","lids","awg","open","flds","fld_ne","closed","noloops","fresh_p","fresh_t","cfg_p","cfg_t","run_p","run_t","exact"]
PF="phase_false"
def skel(over, pre="", nk=11):
    parts=[]
    for c in CL:
        t=over.get(c, "keep I" if CL.index(c)<nk else None)
        assert t is not None, c
        parts.append("(%s; %s)" % (pre, t) if pre else "(%s)" % t)
    return "constructor; projs; [\n      " + "\n    | ".join(parts) + " ]."
def ex(P="P"): return "intros _; apply (i_exact s I); rewrite %s; discriminate" % P
OUT=[]
def lemma(name, label, body):
    OUT.append("Lemma %s s s' : Inv s -> lstep s %s = Some s' -> Inv s'.\nProof.\n%s\nQed.\n" % (name, label, body))

# ---- spawn plain
some=skel(dict(
   lnodup="cbn [map al_lis]; constructor; [intros Hin; apply in_map_iff in Hin; destruct Hin as (a & E & Ha); exact (Fr a Ha E)|exact (i_lnodup s I)]",
   lids="intros a [<-|Ha]; [cbn [al_lis]; apply (i_flds s I); auto|apply (i_lids s I); exact Ha]",
   awg="rewrite count_cons; cbn [loop_live al_done negb]; rewrite (i_awg s I); reflexivity",
   closed=PF, noloops=PF, fresh_p="discriminate",
   fresh_t="intros _ l Hl; destruct (i_fresh_t s I (or_introl P) l Hl) as [Ft Ot]; split; [intros a [<-|Ha]; [cbn [al_lis]; intros E; subst; exact (i_fld_ne s I l F Hl)|exact (Ft a Ha)]|exact Ot]",
   cfg_p="intros _; apply (i_cfg_p s I); orP P", cfg_t="intros _; apply (i_cfg_t s I); orP P",
   run_p="intros _ l Hl; exists lis; split; [exact F|]; split; [exact Op|]; eexists; split; [left; reflexivity|]; split; reflexivity",
   run_t="intros H; split_or H", exact=ex()), pre="try rewrite <- F")
none=skel(dict(
   open="intros l Hl; destruct (i_open s I l Hl) as [A1 A2]; rewrite F in A2; auto",
   flds="intros l Hl; apply (i_flds s I); rewrite F; exact Hl", fld_ne="discriminate",
   closed=PF, noloops=PF, fresh_p="discriminate", fresh_t="intros _; apply (i_fresh_t s I); auto",
   cfg_p="intros _ Hc; exfalso; apply (i_cfg_p s I ltac:(orP P) Hc); exact F", cfg_t="intros _; apply (i_cfg_t s I); orP P",
   run_p="intros _ l Hl; discriminate", run_t="intros H; split_or H", exact=ex()))
lemma("inv_spawn_plain","LStartSpawnPlain","""  intros I H. cbn [lstep] in H. destruct (pc s) eqn:P; try discriminate.
  destruct (fld_plain s) as [lis|] eqn:F; inversion H; subst; clear H.
  - destruct (i_fresh_p s I P lis F) as [Fr Op].
    %s
  - %s""" % (some, none))

# ---- spawn tls
some=skel(dict(
   lnodup="cbn [map al_lis]; constructor; [intros Hin; apply in_map_iff in Hin; destruct Hin as (a & E & Ha); exact (Fr a Ha E)|exact (i_lnodup s I)]",
   lids="intros a [<-|Ha]; [cbn [al_lis]; apply (i_flds s I); auto|apply (i_lids s I); exact Ha]",
   awg="rewrite count_cons; cbn [loop_live al_done negb]; rewrite (i_awg s I); reflexivity",
   closed=PF, noloops=PF, fresh_p="discriminate", fresh_t="intros H; split_or H",
   cfg_p="intros _; apply (i_cfg_p s I); orP P", cfg_t="intros _; apply (i_cfg_t s I); orP P",
   run_p="intros _ l Hl; destruct (i_run_p s I (or_introl P) l Hl) as (l0 & E & Hin & a & Ha & A1 & A2); exists l0; split; [exact E|]; split; [exact Hin|]; exists a; split; [right; exact Ha|auto]",
   run_t="intros _ l Hl; exists lis; split; [exact F|]; split; [exact Op|]; eexists; split; [left; reflexivity|]; split; reflexivity",
   exact=ex()), pre="try rewrite <- F")
none=skel(dict(
   open="intros l Hl; destruct (i_open s I l Hl) as [A1 A2]; rewrite F in A2; auto",
   flds="intros l Hl; apply (i_flds s I); rewrite F; exact Hl", fld_ne="intros l _ Hl; discriminate",
   closed=PF, noloops=PF, fresh_p="discriminate", fresh_t="intros H; split_or H",
   cfg_p="intros _; apply (i_cfg_p s I); orP P", cfg_t="intros _ Hc; exfalso; apply (i_cfg_t s I ltac:(orP P) Hc); exact F",
   run_p="intros _; apply (i_run_p s I); auto", run_t="intros _ l Hl; discriminate", exact=ex()))
lemma("inv_spawn_tls","LStartSpawnTLS","""  intros I H. cbn [lstep] in H. destruct (pc s) eqn:P; try discriminate.
  destruct (fld_tls s) as [lis|] eqn:F; inversion H; subst; clear H.
  - destruct (i_fresh_t s I (or_intror P) lis F) as [Fr Op].
    %s
  - %s""" % (some, none))

# ---- stop begin: only stopping and pc change (PRunning -> PStop1)
lemma("inv_stop_begin","LStopBegin","""  intros I H. cbn [lstep] in H. destruct (pc s) eqn:P; try discriminate. inversion H; subst; clear H.
  %s""" % skel(dict(closed=PF, noloops=PF, fresh_p="discriminate", fresh_t="intros H; split_or H",
   cfg_p="intros _; apply (i_cfg_p s I); orP P", cfg_t="intros _; apply (i_cfg_t s I); orP P",
   run_p="intros _; apply (i_run_p s I); orP P", run_t="intros _; apply (i_run_t s I); orP P", exact=ex())))

# ---- stop close listeners
lemma("inv_stop_close_lis","LStopCloseLis","""  intros I H. cbn [lstep] in H. destruct (pc s) eqn:P; try discriminate. inversion H; subst; clear H.
  assert (E : filter (fun x => negb (mem_nat x (opt_list (fld_plain s) ++ opt_list (fld_tls s)))) (open_lis s) = []).
  { destruct (filter _ (open_lis s)) as [|x r] eqn:Fi; [reflexivity|]. exfalso.
    assert (Hx : In x (x :: r)) by (left; reflexivity). rewrite <- Fi in Hx. apply filter_In in Hx. destruct Hx as [Hx1 Hx2].
    apply negb_true_iff in Hx2. destruct (i_open s I x Hx1) as [_ [Hf|Hf]]; rewrite Hf in Hx2; cbn [opt_list app] in Hx2.
    - cbn [mem_nat existsb] in Hx2. rewrite Nat.eqb_refl in Hx2. discriminate.
    - assert (M : mem_nat x (opt_list (fld_plain s) ++ [x]) = true) by (apply mem_nat_in; apply in_or_app; right; left; reflexivity). congruence. }
  rewrite E.
  %s""" % skel(dict(
   open="intros l []", flds="intros l [Hl|Hl]; discriminate", fld_ne="intros l Hl; discriminate",
   closed="intros _; auto", noloops=PF, fresh_p="discriminate", fresh_t="intros H; split_or H",
   cfg_p="intros H; split_or H", cfg_t="intros H; split_or H", run_p="intros H; split_or H", run_t="intros H; split_or H", exact=ex())))

# ---- stop wait accept: enabled when accept_wg = 0: every loop is done
lemma("inv_stop_wait_accept","LStopWaitAccept","""  intros I H. cbn [lstep] in H. destruct (pc s) eqn:P; try discriminate. destruct (accept_wg s) eqn:W; try discriminate. inversion H; subst; clear H.
  assert (NL : forall a, In a (loops s) -> al_done a = true).
  { intros a Ha. pose proof (i_awg s I) as A. rewrite W in A. symmetry in A. pose proof (count_zero loop_live (loops s) A a Ha) as Z.
    unfold loop_live in Z. apply negb_false_iff in Z. exact Z. }
  %s""" % skel(dict(
   awg="rewrite <- W; exact (i_awg s I)",
   closed="intros _; apply (i_closed s I); unfold stopped_phase; orP P", noloops="intros _; exact NL", fresh_p="discriminate", fresh_t="intros H; split_or H",
   cfg_p="intros H; split_or H", cfg_t="intros H; split_or H", run_p="intros H; split_or H", run_t="intros H; split_or H", exact=ex())))

# ---- stop close conns: registry := []; every socket closed
lemma("inv_stop_close_conns","LStopCloseConns","""  intros I H. cbn [lstep] in H. destruct (pc s) eqn:P; try discriminate. inversion H; subst; clear H.
  %s""" % skel(dict(
   nodup="rewrite map_map; cbn [close_conn ct_id]; exact (i_nodup s I)",
   ids="intros c Hc; apply in_map_iff in Hc; destruct Hc as (c0 & <- & Hc0); cbn [close_conn ct_id]; apply (i_ids s I); exact Hc0",
   cwg="rewrite count_map_close; exact (i_cwg s I)",
   reg="intros id []",
   done="intros c Hc _; apply in_map_iff in Hc; destruct Hc as (c0 & <- & Hc0); reflexivity",
   closed="intros _; apply (i_closed s I); unfold stopped_phase; orP P", noloops="intros _; apply (i_noloops s I); unfold no_loop_phase; orP P",
   fresh_p="discriminate", fresh_t="intros H; split_or H",
   cfg_p="intros H; split_or H", cfg_t="intros H; split_or H", run_p="intros H; split_or H", run_t="intros H; split_or H",
   exact="intros H; exfalso; apply H; reflexivity")))

# ---- stop wait conns: enabled when conn_wg = 0: every connection goroutine is done, hence nothing registered
lemma("inv_stop_wait_conns","LStopWaitConns","""  intros I H. cbn [lstep] in H. destruct (pc s) eqn:P; try discriminate. destruct (conn_wg s) eqn:W; try discriminate. inversion H; subst; clear H.
  assert (AD : forall c, In c (conns s) -> ct_st c = CDone).
  { intros c Hc. pose proof (i_cwg s I) as A. rewrite W in A. symmetry in A. pose proof (count_zero not_done (conns s) A c Hc) as Z.
    unfold not_done in Z. destruct (ct_st c); try discriminate; reflexivity. }
  %s""" % skel(dict(
   cwg="rewrite <- W; exact (i_cwg s I)",
   closed="intros _; apply (i_closed s I); unfold stopped_phase; orP P", noloops="intros _; apply (i_noloops s I); unfold no_loop_phase; orP P",
   fresh_p="discriminate", fresh_t="intros H; split_or H",
   cfg_p="intros H; split_or H", cfg_t="intros H; split_or H", run_p="intros H; split_or H", run_t="intros H; split_or H",
   exact="intros _ c Hc Hs; rewrite (AD c Hc) in Hs; discriminate")))


# ---------------------------------------------------------------- thread steps (pc unchanged)
def same(cl): return "intros Hp; exact (i_%s s I Hp)" % cl
PCSAME=dict(closed=same("closed"), noloops=same("noloops"), fresh_p=same("fresh_p"), fresh_t=same("fresh_t"), cfg_p=same("cfg_p"), cfg_t=same("cfg_t"),
            run_p=same("run_p"), run_t=same("run_t"))
OUT.append("""Lemma nodup_same_id l a b : NoDup (map ct_id l) -> In a l -> In b l -> ct_id a = ct_id b -> a = b.
Proof.
  induction l as [|x l IH]; intros Hnd Ha Hb E; [contradiction|]. cbn [map] in Hnd. inversion Hnd as [|? ? Hx Hnd']; subst.
  destruct Ha as [->|Ha], Hb as [->|Hb]; try reflexivity.
  - exfalso. apply Hx. rewrite E. apply in_map. exact Hb.
  - exfalso. apply Hx. rewrite <- E. apply in_map. exact Ha.
  - apply IH; assumption.
Qed.
""")

# ---- accept ok
stop=skel(dict(PCSAME, ids="intros c Hc; pose proof (i_ids s I c Hc); lia", lids="intros a0 Ha0; pose proof (i_lids s I a0 Ha0); lia",
   open="intros l Hl; destruct (i_open s I l Hl); split; [lia|assumption]", flds="intros l Hl; pose proof (i_flds s I l Hl); lia",
   exact="intros Hp; exact (i_exact s I Hp)"))
go=skel(dict(PCSAME,
   nodup="cbn [map ct_id]; constructor; [intros Hin; apply in_map_iff in Hin; destruct Hin as (c0 & E0 & Hc0); pose proof (i_ids s I c0 Hc0); lia|exact (i_nodup s I)]",
   ids="intros c [<-|Hc]; [cbn [ct_id]; lia|pose proof (i_ids s I c Hc); lia]",
   cwg="rewrite count_cons; cbn [not_done ct_st]; rewrite (i_cwg s I); reflexivity",
   reg="intros id Hid; destruct (i_reg s I id Hid) as (c0 & H1 & H2 & H3); exists c0; split; [right; exact H1|auto]",
   done="intros c [<-|Hc] Hd; [discriminate|exact (i_done s I c Hc Hd)]",
   lids="intros a0 Ha0; pose proof (i_lids s I a0 Ha0); lia",
   open="intros l Hl; destruct (i_open s I l Hl); split; [lia|assumption]", flds="intros l Hl; pose proof (i_flds s I l Hl); lia",
   exact="intros Hp c [<-|Hc] Hs; [discriminate|exact (i_exact s I Hp c Hc Hs)]"))
lemma("inv_accept_ok","(LAcceptOk lis)","""  intros I H. cbn [lstep] in H. destruct (find_loop lis (loops s)) as [a|] eqn:FL; try discriminate.
  destruct (mem_nat lis (open_lis s)) eqn:M; try discriminate. destruct (stopping s) eqn:St; inversion H; subst; clear H; unfold serving in *.
  - %s
  - %s""" % (stop, go))
OUT[-1]=OUT[-1].replace("Lemma inv_accept_ok s s' :","Lemma inv_accept_ok lis s s' :")

# ---- accept fail
fail=skel(dict(PCSAME,
   lnodup="rewrite lis_set_loop_done; exact (i_lnodup s I)",
   lids="intros a0 Ha0; apply in_set_loop_done in Ha0; destruct Ha0 as (a1 & Ha1 & ->); pose proof (i_lids s I a1 Ha1); destruct (Nat.eqb (al_lis a1) lis); cbn [al_lis]; lia",
   awg="pose proof (count_set_loop_done lis (loops s) a (i_lnodup s I) A1 A2 A3) as Cn; rewrite (i_awg s I), <- Cn; reflexivity",
   noloops="intros Hp a0 Ha0; apply in_set_loop_done in Ha0; destruct Ha0 as (a1 & Ha1 & ->); destruct (Nat.eqb (al_lis a1) lis); [reflexivity|exact (i_noloops s I Hp a1 Ha1)]",
   fresh_p="intros Hp l Hl; destruct (i_fresh_p s I Hp l Hl) as [Fr Op]; split; [|exact Op]; intros a0 Ha0; apply in_set_loop_done in Ha0; destruct Ha0 as (a1 & Ha1 & ->); pose proof (Fr a1 Ha1); destruct (Nat.eqb (al_lis a1) lis); cbn [al_lis]; assumption",
   fresh_t="intros Hp l Hl; destruct (i_fresh_t s I Hp l Hl) as [Fr Op]; split; [|exact Op]; intros a0 Ha0; apply in_set_loop_done in Ha0; destruct Ha0 as (a1 & Ha1 & ->); pose proof (Fr a1 Ha1); destruct (Nat.eqb (al_lis a1) lis); cbn [al_lis]; assumption",
   run_p="intros Hp l Hl; destruct (i_run_p s I Hp l Hl) as (l0 & E0 & Hin & a0 & Ha0 & B1 & B2); unfold serving; projs; exists l0; split; [exact E0|]; split; [exact Hin|]; exists a0; split; [|auto]; "
         "replace a0 with (if Nat.eqb (al_lis a0) lis then {| al_lis := al_lis a0; al_tls := al_tls a0; al_done := true |} else a0); [unfold set_loop_done; apply in_map_iff; exists a0; split; [reflexivity|exact Ha0]|]; "
         "destruct (Nat.eqb (al_lis a0) lis) eqn:E1; [|reflexivity]; apply Nat.eqb_eq in E1; exfalso; apply NM; rewrite <- E1, B1; exact Hin",
   run_t="intros Hp l Hl; destruct (i_run_t s I Hp l Hl) as (l0 & E0 & Hin & a0 & Ha0 & B1 & B2); unfold serving; projs; exists l0; split; [exact E0|]; split; [exact Hin|]; exists a0; split; [|auto]; "
         "replace a0 with (if Nat.eqb (al_lis a0) lis then {| al_lis := al_lis a0; al_tls := al_tls a0; al_done := true |} else a0); [unfold set_loop_done; apply in_map_iff; exists a0; split; [reflexivity|exact Ha0]|]; "
         "destruct (Nat.eqb (al_lis a0) lis) eqn:E1; [|reflexivity]; apply Nat.eqb_eq in E1; exfalso; apply NM; rewrite <- E1, B1; exact Hin",
   exact="intros Hp; exact (i_exact s I Hp)"))
lemma("inv_accept_fail","(LAcceptFail lis)","""  intros I H. cbn [lstep] in H. destruct (find_loop lis (loops s)) as [a|] eqn:FL; try discriminate.
  destruct (mem_nat lis (open_lis s)) eqn:M; try discriminate. inversion H; subst; clear H.
  apply find_loop_in in FL. destruct FL as (A1 & A2 & A3).
  assert (NM : ~ In lis (open_lis s)) by (intros Hin; apply mem_nat_in in Hin; congruence).
  unfold serving in *.
  %s""" % fail)
OUT[-1]=OUT[-1].replace("Lemma inv_accept_fail s s' :","Lemma inv_accept_fail lis s s' :")

# ---- a connection goroutine ends before registration (handshake failure / rejected certificate)
def conn_end(exact_tac, reg_tac, extra_reg=""):
    return dict(PCSAME,
      nodup="rewrite ids_set_conn by reflexivity; exact (i_nodup s I)",
      ids="intros c0 Hc0; apply in_set_conn in Hc0; destruct Hc0 as (c1 & Hc1 & ->); pose proof (i_ids s I c1 Hc1); destruct (Nat.eqb (ct_id c1) id); cbn [finish_conn ct_id]; lia",
      cwg="pose proof (count_set_conn_done id (conns s) c (i_nodup s I) C1 C2 ND) as Cn; rewrite (i_cwg s I), <- Cn; reflexivity",
      reg=reg_tac,
      done="intros c0 Hc0 Hd; apply in_set_conn in Hc0; destruct Hc0 as (c1 & Hc1 & ->); destruct (Nat.eqb (ct_id c1) id); [reflexivity|exact (i_done s I c1 Hc1 Hd)]",
      exact=exact_tac)
reg_keep=("intros id0 Hid0; destruct (i_reg s I id0 Hid0) as (c0 & H1 & H2 & H3); exists c0; split; [|auto]; "
          "replace c0 with (if Nat.eqb (ct_id c0) id then finish_conn c0 else c0); [apply in_set_conn_intro; exact H1|]; "
          "destruct (Nat.eqb (ct_id c0) id) eqn:E1; [|reflexivity]; apply Nat.eqb_eq in E1; exfalso; "
          "assert (c0 = c) by (apply (nodup_same_id (conns s)); [exact (i_nodup s I)|exact H1|exact C1|congruence]); subst c0; congruence")
exact_keep=("intros Hp c0 Hc0 Hs; apply in_set_conn in Hc0; destruct Hc0 as (c1 & Hc1 & ->); destruct (Nat.eqb (ct_id c1) id); [discriminate|exact (i_exact s I Hp c1 Hc1 Hs)]")
body="""  intros I H. cbn [lstep] in H. destruct (find_conn id (conns s)) as [c|] eqn:FC; try discriminate.
  destruct (ct_st c) eqn:St; try discriminate. destruct (ct_tls c) eqn:Tl; try discriminate. inversion H; subst; clear H.
  apply find_conn_in in FC. destruct FC as (C1 & C2). assert (ND : not_done c = true) by (unfold not_done; rewrite St; reflexivity).
  unfold serving in *.
  %s""" % skel(conn_end(exact_keep, reg_keep))
lemma("inv_handshake_fail","(LHandshakeFail id)", body)
OUT[-1]=OUT[-1].replace("Lemma inv_handshake_fail s s' :","Lemma inv_handshake_fail id s s' :")
lemma("inv_reject","(LReject id)", body)
OUT[-1]=OUT[-1].replace("Lemma inv_reject s s' :","Lemma inv_reject id s s' :")

# ---- enter: CTracked -> CRegistered, registry += id
adm=dict(PCSAME,
  nodup="rewrite ids_set_conn by reflexivity; exact (i_nodup s I)",
  ids="intros c0 Hc0; apply in_set_conn in Hc0; destruct Hc0 as (c1 & Hc1 & ->); pose proof (i_ids s I c1 Hc1); destruct (Nat.eqb (ct_id c1) id); cbn [register_conn ct_id]; lia",
  cwg="rewrite (count_set_conn_tracked id (conns s) c (i_nodup s I) C1 C2 St); exact (i_cwg s I)",
  reg=("intros id0 [<-|Hid0]; [exists (register_conn c); split; [|split; [exact C2|reflexivity]]; "
       "pose proof (in_set_conn_intro id register_conn (conns s) c C1) as Hi; rewrite C2, Nat.eqb_refl in Hi; exact Hi|]; "
       "destruct (i_reg s I id0 Hid0) as (c0 & H1 & H2 & H3); exists c0; split; [|auto]; "
       "replace c0 with (if Nat.eqb (ct_id c0) id then register_conn c0 else c0); [apply in_set_conn_intro; exact H1|]; "
       "destruct (Nat.eqb (ct_id c0) id) eqn:E1; [|reflexivity]; apply Nat.eqb_eq in E1; exfalso; "
       "assert (c0 = c) by (apply (nodup_same_id (conns s)); [exact (i_nodup s I)|exact H1|exact C1|congruence]); subst c0; congruence"),
  done="intros c0 Hc0 Hd; apply in_set_conn in Hc0; destruct Hc0 as (c1 & Hc1 & ->); destruct (Nat.eqb (ct_id c1) id); [discriminate|exact (i_done s I c1 Hc1 Hd)]",
  exact=("intros Hp c0 Hc0 Hs; apply in_set_conn in Hc0; destruct Hc0 as (c1 & Hc1 & ->); destruct (Nat.eqb (ct_id c1) id) eqn:E1; "
         "[left; cbn [register_conn ct_id]; apply Nat.eqb_eq in E1; symmetry; exact E1|right; exact (i_exact s I Hp c1 Hc1 Hs)]"))
lemma("inv_enter","(LEnter id)","""  intros I H. cbn [lstep] in H. destruct (find_conn id (conns s)) as [c|] eqn:FC; try discriminate.
  destruct (ct_st c) eqn:St; try discriminate. inversion H; subst; clear H.
  apply find_conn_in in FC. destruct FC as (C1 & C2).
  unfold serving in *.
  %s""" % skel(adm))
OUT[-1]=OUT[-1].replace("Lemma inv_enter s s' :","Lemma inv_enter id s s' :")

# ---- finish: CRegistered -> CDone, registry -= id
fin=conn_end(
  exact_tac=("intros Hp c0 Hc0 Hs; apply in_set_conn in Hc0; destruct Hc0 as (c1 & Hc1 & ->); destruct (Nat.eqb (ct_id c1) id) eqn:E1; [discriminate|]; "
             "apply in_remove_nat; split; [exact (i_exact s I Hp c1 Hc1 Hs)|apply Nat.eqb_neq; exact E1]"),
  reg_tac=("intros id0 Hid0; apply in_remove_nat in Hid0; destruct Hid0 as [Hid0 Hne]; destruct (i_reg s I id0 Hid0) as (c0 & H1 & H2 & H3); exists c0; split; [|auto]; "
           "replace c0 with (if Nat.eqb (ct_id c0) id then finish_conn c0 else c0); [apply in_set_conn_intro; exact H1|]; "
           "destruct (Nat.eqb (ct_id c0) id) eqn:E1; [|reflexivity]; apply Nat.eqb_eq in E1; congruence"))
lemma("inv_finish","(LFinish id)","""  intros I H. cbn [lstep] in H. destruct (find_conn id (conns s)) as [c|] eqn:FC; try discriminate.
  destruct (ct_st c) eqn:St; try discriminate. inversion H; subst; clear H.
  apply find_conn_in in FC. destruct FC as (C1 & C2). assert (ND : not_done c = true) by (unfold not_done; rewrite St; reflexivity).
  unfold serving in *.
  %s""" % skel(fin))
OUT[-1]=OUT[-1].replace("Lemma inv_finish s s' :","Lemma inv_finish id s s' :")

print("\n".join(OUT))
