#!/usr/bin/env python3
"""Regenerate /verif/MANIFEST.json from the table below (one entry per claimed property) and validate it
against /root/.vp/MANIFEST.schema.json.  Properties without an entry are listed under not_applicable with the
reason given in PENDING."""
import json, os, sys

ROOT = os.path.dirname(os.path.dirname(os.path.abspath(__file__)))
ALL = ["C%02d" % i for i in range(1, 21)]

# id -> (design_ref, level text, level note, technique)
CLAIMS = {}

EXTRA_CORR = {}

def claim(pid, text, note, technique, category="proof"):
    CLAIMS[pid] = dict(text=text + EXTRA_CORR.get(pid, ""), note=note, technique=technique, category=category)

exec(open(os.path.join(ROOT, "tools", "claims.py")).read())

def main():
    hooks_commits = [l.strip() for l in open(os.path.join(ROOT, "tools", "hook_commits.txt")) if l.strip() and not l.startswith("#")]
    man = {
        "version": 1,
        "setup_cmd": "./setup.sh",
        "hooks": {
            "guard": "verif (Go build tag)",
            "enable": "go build -tags verif (the harness module in /verif/harness replaces github.com/cybergarage/go-redis with /repo and is rebuilt by every check)",
            "baseline_off_cmd": "python3 /verif/tools/baseline_check.py /repo",
            "source_commits": hooks_commits,
            "add_only": True,
        },
        "engines": [{
            "name": "coq-model+go-harness",
            "path": "/verif/check",
            "serves_properties": sorted(CLAIMS),
            "kind_free_text": "Coq 8.16.1 theorems about a hand-written executable Gallina model of the code; the model is extracted to OCaml "
                              "(ExtrOcamlBasic only) and run against the Go implementation (rebuilt from /repo with -tags verif) on the same inputs, "
                              "operation sequences and histories; python compares projected observables, shrinks, and writes evidence/replays",
        }],
        "checks": [],
        "not_applicable": [],
        "notes": "see DESIGN.md; known_findings.json lists fixed defects (fix: commits in /repo) and recorded findings",
    }
    for pid in ALL:
        if pid in CLAIMS:
            c = CLAIMS[pid]
            man["checks"].append({
                "property_id": pid,
                "quick_cmd": "./check %s --tier quick" % pid,
                "thorough_cmd": "./check %s --tier thorough" % pid,
                "evidence_file": "/verif/evidence/%s.json" % pid,
                "replay_cmd_template": "./check %s --replay {path}" % pid,
                "engine": "coq-model+go-harness",
                "level_claimed": {"category": c["category"], "text": c["text"], "design_ref": "4/" + pid},
                "level_note": c["note"],
                "technique": c["technique"],
            })
        else:
            man["not_applicable"].append({"property_id": pid, "reason": PENDING.get(pid, "check not built yet in this revision (planned per DESIGN.md section 4)")})
    try:
        import jsonschema
        jsonschema.validate(man, json.load(open("/root/.vp/MANIFEST.schema.json")))
    except ImportError:
        pass
    with open(os.path.join(ROOT, "MANIFEST.json"), "w") as f:
        json.dump(man, f, indent=1)
        f.write("\n")
    print("MANIFEST.json: %d claimed, %d not claimed" % (len(man["checks"]), len(man["not_applicable"])))

if __name__ == "__main__":
    main()
