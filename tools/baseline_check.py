#!/usr/bin/env python3
"""Run the repository's own test suite (hooks OFF: no build tag) in DIR (default /repo)
and check that every test of /root/.vp/BASELINE.json's stable_pass list passes.
Packages are run one at a time (-p 1): two packages bind port 6379.
Usage: baseline_check.py [DIR] [--tags verif]
Exit 0 iff all stable tests passed (retried up to 3 times for the port-reuse flake)."""
import json, os, subprocess, sys, shutil, tempfile

def run(d, tags):
    env = dict(os.environ, GOFLAGS="-mod=mod", GOPROXY="off", GOSUMDB="off", GOTOOLCHAIN="local")
    cmd = ["flock", "/var/tmp/gotest6379.lock", "go", "test", "-p", "1", "-json", "-vet=off", "-count=1", "-timeout", "25m"]
    if tags:
        cmd += ["-tags", tags]
    cmd += ["./..."]
    p = subprocess.run(cmd, cwd=d, env=env, stdout=subprocess.PIPE, stderr=subprocess.STDOUT, text=True)
    res = {}
    for line in p.stdout.splitlines():
        try:
            ev = json.loads(line)
        except Exception:
            continue
        if ev.get("Test") and ev.get("Action") in ("pass", "fail", "skip"):
            res[ev["Package"] + "::" + ev["Test"]] = ev["Action"]
    return res, p.stdout

def main():
    args = sys.argv[1:]
    tags = None
    if "--tags" in args:
        i = args.index("--tags"); tags = args[i + 1]; del args[i:i + 2]
    d = args[0] if args else "/repo"
    stable = json.load(open("/root/.vp/BASELINE.json"))["stable_pass"]
    # never run go inside /repo itself with -mod=mod: work on a scratch copy
    scratch = tempfile.mkdtemp(prefix="baseline_", dir="/var/tmp")
    try:
        work = os.path.join(scratch, "repo")
        subprocess.check_call(["rsync", "-a", "--exclude", ".git", d.rstrip("/") + "/", work + "/"])
        missing = stable
        out = ""
        passed = set()
        for attempt in range(3):
            res, out = run(work, tags)
            passed |= {t for t in stable if res.get(t) == "pass"}
            missing = [t for t in stable if t not in passed]
            if not missing:
                break
        print(f"baseline: {len(stable) - len(missing)}/{len(stable)} stable tests pass")
        if missing:
            for t in missing[:20]:
                print("NOT PASSING:", t)
            print(out[-3000:])
            sys.exit(1)
    finally:
        shutil.rmtree(scratch, ignore_errors=True)

if __name__ == "__main__":
    main()
