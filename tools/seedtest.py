#!/usr/bin/env python3
"""seedtest.py PATCH CHECK [CHECK...] [--tier quick|thorough]
Apply PATCH to /repo's working tree, run the named checks, and ALWAYS restore /repo afterwards.
Prints, per check, exit code and the VIOLATION / KNOWN-FINDING / OK lines.  Not registered in MANIFEST."""
import os, subprocess, sys

def main():
    a = sys.argv[1:]
    tier = "quick"
    if "--tier" in a:
        i = a.index("--tier"); tier = a[i + 1]; del a[i:i + 2]
    patch, checks = a[0], a[1:]
    st = subprocess.run(["git", "-C", "/repo", "status", "--porcelain"], stdout=subprocess.PIPE, text=True).stdout.strip()
    if st:
        print("refusing: /repo working tree is not clean:\n" + st); sys.exit(2)
    subprocess.check_call(["git", "-C", "/repo", "apply", patch])
    try:
        for c in checks:
            p = subprocess.run(["./check", c, "--tier", tier], cwd="/verif", stdout=subprocess.PIPE, stderr=subprocess.STDOUT, text=True)
            lines = [l for l in p.stdout.splitlines() if l.startswith(("VIOLATION", "KNOWN-FINDING", "OK "))]
            print("== %s rc=%d" % (c, p.returncode))
            for l in lines[:6]:
                print("   " + l[:400])
    finally:
        subprocess.check_call(["git", "-C", "/repo", "checkout", "--", "."])
        subprocess.run(["git", "-C", "/verif", "checkout", "--", "evidence"])      # evidence written on a mutated tree is not evidence
        subprocess.run(["git", "-C", "/repo", "clean", "-fdq"])
        st = subprocess.run(["git", "-C", "/repo", "status", "--porcelain"], stdout=subprocess.PIPE, text=True).stdout.strip()
        print("repo restored" + (" (NOT CLEAN: %s)" % st if st else ""))

if __name__ == "__main__":
    main()
