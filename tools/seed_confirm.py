#!/usr/bin/env python3
"""seed_confirm.py SEEDNAME OUTDIR DEMO_DEST RUN_PATTERN PKG [--prop Cxx]
Confirm a seeded change independently, in a fresh scratch worktree of /repo (removed afterwards):
  1. the demonstration passes on the unmodified source
  2. the patch applies, the tree builds, the demonstration FAILS with it
  3. the repository's own stable test suite (233 tests) still passes with it (demo removed)
On success the seed is stored as /verif/seeded/SEEDNAME/ (patch.diff, demo/, meta.json)."""
import json, os, shutil, subprocess, sys

ENV = dict(os.environ, GOFLAGS="-mod=mod", GOPROXY="off", GOSUMDB="off", GOTOOLCHAIN="local")

def sh(cmd, cwd, timeout=1800):
    p = subprocess.run(cmd, cwd=cwd, env=ENV, stdout=subprocess.PIPE, stderr=subprocess.STDOUT, text=True, timeout=timeout)
    return p.returncode, p.stdout

def main():
    a = sys.argv[1:]
    prop = None
    race = []
    if "--race" in a:
        a.remove("--race"); race = ["-race"]
    if "--prop" in a:
        i = a.index("--prop"); prop = a[i + 1]; del a[i:i + 2]
    name, outdir, dest, pat, pkg = a
    wt = "/tmp/confirm_" + name
    subprocess.run(["git", "-C", "/repo", "worktree", "remove", "--force", wt], stdout=subprocess.DEVNULL, stderr=subprocess.DEVNULL)
    subprocess.check_call(["git", "-C", "/repo", "worktree", "add", "-q", "--detach", wt, "HEAD"])
    res = {}
    try:
        demos = [f for f in os.listdir(os.path.join(outdir, "demo")) if f.endswith(".go")]
        for f in demos:
            shutil.copy(os.path.join(outdir, "demo", f), os.path.join(wt, dest, f))
        rc, o = sh(["go", "test"] + race + ["-count=1", "-vet=off", "-run", pat, pkg], wt)
        res["demo_passes_without_change"] = rc == 0
        print("demo without change: rc=%d" % rc); print(o[-600:])
        rc, o = sh(["git", "apply", os.path.join(outdir, "patch.diff")], wt)
        if rc != 0:
            print("patch does not apply:", o); sys.exit(1)
        rc, o = sh(["go", "build", "./..."], wt)
        res["builds"] = rc == 0
        rc, o = sh(["go", "test"] + race + ["-count=1", "-vet=off", "-run", pat, pkg], wt)
        res["demo_fails_with_change"] = rc != 0
        print("demo with change: rc=%d" % rc); print(o[-1200:])
        for f in demos:
            os.remove(os.path.join(wt, dest, f))
        rc, o = sh([sys.executable, "/verif/tools/baseline_check.py", wt], "/verif", timeout=3600)
        res["tests_pass_with_change"] = rc == 0
        print("suite with change: rc=%d %s" % (rc, o.strip().splitlines()[0] if o.strip() else ""))
    finally:
        subprocess.run(["git", "-C", "/repo", "worktree", "remove", "--force", wt])
    ok = all(res.get(k) for k in ("demo_passes_without_change", "builds", "demo_fails_with_change", "tests_pass_with_change"))
    print("CONFIRMED" if ok else "NOT CONFIRMED", res)
    if ok:
        d = os.path.join("/verif/seeded", name)
        shutil.rmtree(d, ignore_errors=True)
        os.makedirs(os.path.join(d, "demo"))
        shutil.copy(os.path.join(outdir, "patch.diff"), d)
        for f in os.listdir(os.path.join(outdir, "demo")):
            shutil.copy(os.path.join(outdir, "demo", f), os.path.join(d, "demo"))
        meta = json.load(open(os.path.join(outdir, "meta.json")))
        meta["confirmed_by_me"] = dict(res, how="tools/seed_confirm.py: fresh worktree of /repo HEAD; demo run before and after `git apply patch.diff`; "
                                                "tools/baseline_check.py (233 stable tests) with the patch applied",
                                       demo_dest=dest, demo_run="go test -count=1 -vet=off -run %s %s" % (pat, pkg))
        if prop:
            meta["property"] = prop
        json.dump(meta, open(os.path.join(d, "meta.json"), "w"), indent=1)
    sys.exit(0 if ok else 1)

if __name__ == "__main__":
    main()
