#!/bin/sh
# usage: coqdbg.sh FILE LINE  — compile FILE up to (excluding) LINE and show the goal there
f=$1; n=$2
head -n $((n-1)) $f > /verif/coq/theories/Dbg_tmp.v
printf '\nShow.\n' >> /verif/coq/theories/Dbg_tmp.v
cd /verif/coq && coqc -Q theories GR -w -all theories/Dbg_tmp.v 2>&1 | head -${3:-80}
rm -f theories/Dbg_tmp.* theories/.Dbg_tmp.aux
