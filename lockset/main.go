// lockset — translator from the Go source of github.com/cybergarage/go-redis (packages redis and redis/auth) to the
// static access table checked in Coq (coq/gen/Access.v): for every access to a field of a struct of these packages that
// is reachable from a thread role (api: Start/Stop/Restart/Conns/ConnByUUID; accept: the accept loops; conn: the
// connection goroutines), the locks certainly held at the access.  Locks are tracked syntactically inside a function
// (Lock / RLock / Unlock / RUnlock / defer Unlock) and propagated along the static call graph (dynamic calls of command
// executors and of interface methods are resolved to every candidate in the packages) by intersection over call sites.
package main

import (
	"fmt"
	"go/ast"
	"go/token"
	"go/types"
	"os"
	"sort"
	"strings"

	"golang.org/x/tools/go/packages"
)

type lockset map[string]bool // lock key -> exclusive

func (l lockset) copy() lockset {
	c := lockset{}
	for k, v := range l {
		c[k] = v
	}
	return c
}

func union(a, b lockset) lockset {
	c := a.copy()
	for k, v := range b {
		c[k] = c[k] || v
	}
	return c
}

func intersect(a, b lockset) lockset {
	c := lockset{}
	for k, v := range a {
		if w, ok := b[k]; ok {
			c[k] = v && w
		}
	}
	return c
}

func (l lockset) String() string {
	ks := []string{}
	for k, v := range l {
		m := "R"
		if v {
			m = "W"
		}
		ks = append(ks, k+":"+m)
	}
	sort.Strings(ks)
	return strings.Join(ks, ",")
}

type access struct {
	loc   string
	write bool
	held  lockset
	pos   token.Position
}

type callsite struct {
	callee string
	held   lockset
}

type fn struct {
	name     string
	accesses []access
	calls    []callsite
	spawns   []string                  // functions started with `go`
	wgAdds   map[string]token.Position // sync.WaitGroup.Add calls in the body of this function, by receiver expression
	wgDones  map[string]bool           // sync.WaitGroup.Done calls in the body of this function, by receiver expression
}

var (
	fset          *token.FileSet
	funcs         = map[string]*fn{}
	litName       = map[*ast.FuncLit]string{}
	execLits      []string                // function literals with the Executor signature (command executors)
	methodsByName = map[string][]string{} // method name -> functions (for interface dispatch)
	ownPkgs       = map[string]bool{}
)

func isSyncType(t types.Type) bool {
	s := t.String()
	return strings.HasPrefix(s, "sync.") || strings.HasPrefix(s, "*sync.")
}

func structName(v *types.Var, info *types.Info, sel *ast.SelectorExpr) string {
	// the struct type that declares the field: from the selection's receiver type
	if s, ok := info.Selections[sel]; ok {
		t := s.Recv()
		for {
			if p, ok := t.(*types.Pointer); ok {
				t = p.Elem()
				continue
			}
			break
		}
		// walk the embedding path to the struct that really declares the field
		idx := s.Index()
		for i := 0; i < len(idx)-1; i++ {
			st, ok := t.Underlying().(*types.Struct)
			if !ok {
				break
			}
			t = st.Field(idx[i]).Type()
			if p, ok := t.(*types.Pointer); ok {
				t = p.Elem()
			}
		}
		if n, ok := t.(*types.Named); ok {
			return n.Obj().Name()
		}
	}
	return "?"
}

func lockKey(info *types.Info, x ast.Expr) (string, bool) {
	sel, ok := x.(*ast.SelectorExpr)
	if !ok {
		return "", false
	}
	obj, ok := info.Uses[sel.Sel].(*types.Var)
	if !ok || !obj.IsField() {
		return "", false
	}
	if !isSyncType(obj.Type()) {
		return "", false
	}
	return structName(obj, info, sel) + "." + obj.Name(), true
}

type walker struct {
	info *types.Info
	f    *fn
	held lockset
	pkg  *packages.Package
	// local variables that alias the backing store of a shared slice / map field (v := x.f, v := x.f[a:b]): reading or
	// writing THROUGH them touches the elements of x.f, with whatever locks are held at that later point
	alias map[*types.Var]string
}

// sharedContainer: e denotes (a reslicing of) a slice- or map-typed field of an own-package struct reached through a
// pointer, or a local alias of one; returns the element location "<Struct.field>[]".
func (w *walker) sharedContainer(e ast.Expr) (string, bool) {
	for {
		switch v := e.(type) {
		case *ast.ParenExpr:
			e = v.X
			continue
		case *ast.SliceExpr:
			e = v.X
			continue
		}
		break
	}
	switch v := e.(type) {
	case *ast.Ident:
		if obj, ok := w.info.Uses[v].(*types.Var); ok {
			if loc, ok := w.alias[obj]; ok {
				return loc, true
			}
		}
	case *ast.SelectorExpr:
		obj, ok := w.info.Uses[v.Sel].(*types.Var)
		if !ok || !obj.IsField() || obj.Pkg() == nil || !ownPkgs[obj.Pkg().Path()] {
			return "", false
		}
		switch obj.Type().Underlying().(type) {
		case *types.Slice, *types.Map:
		default:
			return "", false
		}
		// a field of a struct VALUE in a local variable is not shared
		if id, ok := v.X.(*ast.Ident); ok {
			if lv, ok := w.info.Uses[id].(*types.Var); ok && !lv.IsField() {
				if _, isStruct := lv.Type().Underlying().(*types.Struct); isStruct {
					return "", false
				}
			}
		}
		return structName(obj, w.info, v) + "." + obj.Name() + "[]", true
	}
	return "", false
}

func (w *walker) recordElem(loc string, write bool, pos token.Pos) {
	w.f.accesses = append(w.f.accesses, access{loc: loc, write: write, held: w.held.copy(), pos: fset.Position(pos)})
}

func (w *walker) funcKey(obj *types.Func) string {
	if obj == nil {
		return ""
	}
	if obj.Pkg() == nil || !ownPkgs[obj.Pkg().Path()] {
		return ""
	}
	sig := obj.Type().(*types.Signature)
	if r := sig.Recv(); r != nil {
		t := r.Type()
		if p, ok := t.(*types.Pointer); ok {
			t = p.Elem()
		}
		if n, ok := t.(*types.Named); ok {
			return n.Obj().Name() + "." + obj.Name()
		}
	}
	return obj.Pkg().Name() + "." + obj.Name()
}

func (w *walker) recordAccess(sel *ast.SelectorExpr, write bool) {
	obj, ok := w.info.Uses[sel.Sel].(*types.Var)
	if !ok || !obj.IsField() || obj.Pkg() == nil || !ownPkgs[obj.Pkg().Path()] {
		return
	}
	if isSyncType(obj.Type()) || obj.Embedded() {
		return
	}
	// a field of a struct VALUE held in a local variable (option records built on the stack) is not shared memory
	var root ast.Expr = sel.X
	for {
		switch v := root.(type) {
		case *ast.SelectorExpr:
			root = v.X
			continue
		case *ast.ParenExpr:
			root = v.X
			continue
		case *ast.IndexExpr:
			root = v.X
			continue
		}
		break
	}
	if id, ok := root.(*ast.Ident); ok {
		if v, ok := w.info.Uses[id].(*types.Var); ok && !v.IsField() {
			if _, isStruct := v.Type().Underlying().(*types.Struct); isStruct {
				return
			}
		}
	}
	w.f.accesses = append(w.f.accesses, access{loc: structName(obj, w.info, sel) + "." + obj.Name(), write: write, held: w.held.copy(), pos: fset.Position(sel.Pos())})
}

// lhsBase: the selector that is written by an assignment to e (x.f = .., x.f[k] = .., x.f.g = ..)
func lhsBase(e ast.Expr) *ast.SelectorExpr {
	switch v := e.(type) {
	case *ast.SelectorExpr:
		return v
	case *ast.IndexExpr:
		return lhsBase(v.X)
	case *ast.ParenExpr:
		return lhsBase(v.X)
	case *ast.StarExpr:
		return lhsBase(v.X)
	}
	return nil
}

func (w *walker) expr(e ast.Node, written map[*ast.SelectorExpr]bool) {
	ast.Inspect(e, func(n ast.Node) bool {
		switch v := n.(type) {
		case *ast.FuncLit:
			return false // analysed as its own function
		case *ast.CallExpr:
			w.call(v)
			// arguments and the function expression are inspected by the traversal below
		case *ast.SelectorExpr:
			if !written[v] {
				w.recordAccess(v, false)
			}
		case *ast.IndexExpr:
			if loc, ok := w.sharedContainer(v.X); ok {
				w.recordElem(loc, false, v.Pos())
			}
		}
		return true
	})
}

func isWaitGroup(t types.Type) bool {
	if t == nil {
		return false
	}
	s := t.String()
	return s == "sync.WaitGroup" || s == "*sync.WaitGroup"
}

func (w *walker) call(c *ast.CallExpr) {
	if sel, ok := c.Fun.(*ast.SelectorExpr); ok && (sel.Sel.Name == "Add" || sel.Sel.Name == "Done") && isWaitGroup(w.info.TypeOf(sel.X)) {
		key := types.ExprString(sel.X)
		if sel.Sel.Name == "Add" {
			if w.f.wgAdds == nil {
				w.f.wgAdds = map[string]token.Position{}
			}
			w.f.wgAdds[key] = fset.Position(c.Pos())
		} else {
			if w.f.wgDones == nil {
				w.f.wgDones = map[string]bool{}
			}
			w.f.wgDones[key] = true
		}
	}
	// a shared container handed to a call is read (its elements may be) with the locks held now; append / delete / copy
	// into it write its elements
	for i, a := range c.Args {
		if loc, ok := w.sharedContainer(a); ok {
			wr := false
			if id, ok := c.Fun.(*ast.Ident); ok && i == 0 && (id.Name == "append" || id.Name == "delete" || id.Name == "copy") {
				wr = true
			}
			if id, ok := c.Fun.(*ast.Ident); ok && (id.Name == "len" || id.Name == "cap") {
				continue
			}
			w.recordElem(loc, wr, a.Pos())
		}
	}
	// delete(x.f, k) writes x.f
	if id, ok := c.Fun.(*ast.Ident); ok && id.Name == "delete" && len(c.Args) > 0 {
		if s := lhsBase(c.Args[0]); s != nil {
			w.recordAccess(s, true)
		}
	}
	switch fun := c.Fun.(type) {
	case *ast.SelectorExpr:
		if key, ok := lockKey(w.info, fun.X); ok {
			switch fun.Sel.Name {
			case "Lock":
				w.held[key] = true
			case "RLock":
				if !w.held[key] {
					w.held[key] = false
				}
			case "Unlock", "RUnlock":
				delete(w.held, key)
			}
			return
		}
		if obj, ok := w.info.Uses[fun.Sel].(*types.Func); ok {
			if k := w.funcKey(obj); k != "" {
				// interface method: every implementation with that name
				isIface := false
				if rv := obj.Type().(*types.Signature).Recv(); rv != nil {
					_, isIface = rv.Type().Underlying().(*types.Interface)
				}
				if isIface {
					for _, m := range methodsByName[obj.Name()] {
						w.f.calls = append(w.f.calls, callsite{m, w.held.copy()})
					}
					if strings.Contains(k, "CommandHandler") || strings.Contains(k, "Handler.") {
						w.f.accesses = append(w.f.accesses, access{loc: "handler-state", write: true, held: w.held.copy(), pos: fset.Position(c.Pos())})
					}
				} else {
					w.f.calls = append(w.f.calls, callsite{k, w.held.copy()})
				}
			}
		}
	case *ast.Ident:
		if obj, ok := w.info.Uses[fun].(*types.Func); ok {
			if k := w.funcKey(obj); k != "" {
				w.f.calls = append(w.f.calls, callsite{k, w.held.copy()})
			}
		} else if v, ok := w.info.Uses[fun].(*types.Var); ok {
			// a call through a function value: command executors
			if strings.HasSuffix(v.Type().String(), "redis.Executor") {
				for _, l := range execLits {
					w.f.calls = append(w.f.calls, callsite{l, w.held.copy()})
				}
			}
		}
	}
}

func (w *walker) stmts(list []ast.Stmt) {
	for _, s := range list {
		w.stmt(s)
	}
}

func (w *walker) block(b *ast.BlockStmt) {
	if b == nil {
		return
	}
	saved := w.held.copy()
	w.stmts(b.List)
	w.held = saved // locks are assumed balanced inside nested blocks
}

func (w *walker) stmt(s ast.Stmt) {
	switch v := s.(type) {
	case *ast.AssignStmt:
		written := map[*ast.SelectorExpr]bool{}
		for _, l := range v.Lhs {
			if b := lhsBase(l); b != nil {
				written[b] = true
				w.recordAccess(b, true)
			}
			if ix, ok := l.(*ast.IndexExpr); ok {
				if loc, ok := w.sharedContainer(ix.X); ok {
					w.recordElem(loc, true, ix.Pos())
				}
			}
		}
		if len(v.Lhs) == len(v.Rhs) {
			for i, l := range v.Lhs {
				id, ok := l.(*ast.Ident)
				if !ok {
					continue
				}
				var lv *types.Var
				if d, ok := w.info.Defs[id].(*types.Var); ok {
					lv = d
				} else if u, ok := w.info.Uses[id].(*types.Var); ok && !u.IsField() {
					lv = u
				}
				if lv == nil {
					continue
				}
				if loc, ok := w.sharedContainer(v.Rhs[i]); ok {
					if w.alias == nil {
						w.alias = map[*types.Var]string{}
					}
					w.alias[lv] = loc
				} else if w.alias != nil {
					delete(w.alias, lv)
				}
			}
		}
		for _, l := range v.Lhs {
			w.expr(l, written)
		}
		for _, r := range v.Rhs {
			w.expr(r, nil)
		}
	case *ast.IncDecStmt:
		if b := lhsBase(v.X); b != nil {
			w.recordAccess(b, true)
		}
	case *ast.DeferStmt:
		// defer x.Unlock(): the lock stays held to the end of the function; other deferred calls run with the
		// locks held at function exit (approximated by the locks held now minus those released by explicit Unlocks later)
		if sel, ok := v.Call.Fun.(*ast.SelectorExpr); ok {
			if _, isLock := lockKey(w.info, sel.X); isLock {
				return
			}
		}
		if lit, ok := v.Call.Fun.(*ast.FuncLit); ok {
			w.f.calls = append(w.f.calls, callsite{litName[lit], lockset{}})
			return
		}
		saved := w.held
		w.held = lockset{}
		w.call(v.Call)
		w.expr(v.Call, nil)
		w.held = saved
	case *ast.GoStmt:
		if lit, ok := v.Call.Fun.(*ast.FuncLit); ok {
			w.f.spawns = append(w.f.spawns, litName[lit])
		} else if sel, ok := v.Call.Fun.(*ast.SelectorExpr); ok {
			if obj, ok := w.info.Uses[sel.Sel].(*types.Func); ok {
				w.f.spawns = append(w.f.spawns, w.funcKey(obj))
			}
		}
		for _, a := range v.Call.Args {
			w.expr(a, nil)
		}
	case *ast.BlockStmt:
		w.block(v)
	case *ast.IfStmt:
		if v.Init != nil {
			w.stmt(v.Init)
		}
		w.expr(v.Cond, nil)
		w.block(v.Body)
		if v.Else != nil {
			w.stmt(v.Else)
		}
	case *ast.ForStmt:
		if v.Init != nil {
			w.stmt(v.Init)
		}
		if v.Cond != nil {
			w.expr(v.Cond, nil)
		}
		w.block(v.Body)
	case *ast.RangeStmt:
		w.expr(v.X, nil)
		if loc, ok := w.sharedContainer(v.X); ok {
			w.recordElem(loc, false, v.X.Pos())
		}
		w.block(v.Body)
	case *ast.SwitchStmt:
		if v.Init != nil {
			w.stmt(v.Init)
		}
		if v.Tag != nil {
			w.expr(v.Tag, nil)
		}
		for _, c := range v.Body.List {
			cc := c.(*ast.CaseClause)
			for _, e := range cc.List {
				w.expr(e, nil)
			}
			saved := w.held.copy()
			w.stmts(cc.Body)
			w.held = saved
		}
	case *ast.TypeSwitchStmt:
		for _, c := range v.Body.List {
			saved := w.held.copy()
			w.stmts(c.(*ast.CaseClause).Body)
			w.held = saved
		}
	case *ast.SelectStmt:
		for _, c := range v.Body.List {
			saved := w.held.copy()
			w.stmts(c.(*ast.CommClause).Body)
			w.held = saved
		}
	case *ast.ExprStmt:
		w.expr(v.X, nil)
	case *ast.ReturnStmt:
		for _, r := range v.Results {
			w.expr(r, nil)
			if loc, ok := w.sharedContainer(r); ok {
				// the container itself leaves the function: whoever receives it reads its elements without this function's locks
				saved := w.held
				w.held = lockset{}
				w.recordElem(loc, false, r.Pos())
				w.held = saved
			}
		}
	case *ast.DeclStmt:
		w.expr(v, nil)
	case *ast.LabeledStmt:
		w.stmt(v.Stmt)
	case *ast.SendStmt:
		w.expr(v.Chan, nil)
		w.expr(v.Value, nil)
	}
}

func main() {
	dir := os.Args[1]
	outPath := os.Args[2]
	cfg := &packages.Config{Mode: packages.NeedName | packages.NeedFiles | packages.NeedSyntax | packages.NeedTypes | packages.NeedTypesInfo | packages.NeedImports | packages.NeedDeps,
		Dir: dir, Env: append(os.Environ(), "GOFLAGS=-mod=mod", "GOPROXY=off", "GOSUMDB=off")}
	pkgs, err := packages.Load(cfg, "./redis", "./redis/auth")
	if err != nil || packages.PrintErrors(pkgs) > 0 {
		fmt.Fprintln(os.Stderr, "load failed:", err)
		os.Exit(2)
	}
	for _, p := range pkgs {
		ownPkgs[p.PkgPath] = true
	}
	fset = pkgs[0].Fset
	type todo struct {
		name string
		body *ast.BlockStmt
		pkg  *packages.Package
	}
	var work []todo
	for _, p := range pkgs {
		for _, file := range p.Syntax {
			base := fset.Position(file.Pos()).Filename
			if i := strings.LastIndex(base, "/"); i >= 0 {
				base = base[i+1:]
			}
			if strings.HasSuffix(base, "_test.go") || strings.HasPrefix(base, "verif_") {
				continue
			}
			for _, d := range file.Decls {
				fd, ok := d.(*ast.FuncDecl)
				if !ok || fd.Body == nil {
					continue
				}
				obj := p.TypesInfo.Defs[fd.Name].(*types.Func)
				w := &walker{info: p.TypesInfo}
				name := w.funcKey(obj)
				work = append(work, todo{name, fd.Body, p})
				if fd.Recv != nil {
					methodsByName[fd.Name.Name] = append(methodsByName[fd.Name.Name], name)
				}
				n := 0
				ast.Inspect(fd.Body, func(nd ast.Node) bool {
					if lit, ok := nd.(*ast.FuncLit); ok {
						n++
						ln := fmt.Sprintf("%s$%d", name, n)
						litName[lit] = ln
						work = append(work, todo{ln, lit.Body, p})
						if t, ok := p.TypesInfo.Types[lit]; ok {
							if s, ok := t.Type.(*types.Signature); ok && s.Params().Len() == 3 && s.Results().Len() == 2 && strings.HasSuffix(s.Params().At(0).Type().String(), "redis.Conn") {
								execLits = append(execLits, ln)
							}
						}
					}
					return true
				})
			}
		}
	}
	for _, t := range work {
		f := &fn{name: t.name}
		funcs[t.name] = f
		w := &walker{info: t.pkg.TypesInfo, f: f, held: lockset{}, pkg: t.pkg}
		w.stmts(t.body.List)
	}
	// WaitGroup discipline: the Add that accounts for a goroutine happens BEFORE the `go` statement, never inside the goroutine
	// itself (a body started with `go` that both Adds to and Dones the same WaitGroup)
	// (otherwise Wait can run before Add: the waiter returns while the goroutine is still starting)
	var wgMisuse []string
	spawned := map[string]bool{}
	for _, f := range funcs {
		for _, sp := range f.spawns {
			spawned[sp] = true
		}
	}
	spNames := []string{}
	for n := range spawned {
		spNames = append(spNames, n)
	}
	sort.Strings(spNames)
	for _, n := range spNames {
		if f := funcs[n]; f != nil {
			// the goroutine accounts for ITSELF: Add and Done of the same WaitGroup in the body that `go` starts
			keys := []string{}
			for k := range f.wgAdds {
				if f.wgDones[k] {
					keys = append(keys, k)
				}
			}
			sort.Strings(keys)
			for _, k := range keys {
				pos := f.wgAdds[k]
				wgMisuse = append(wgMisuse, fmt.Sprintf("%s.Add in %s (%s:%d)", k, n, shortPath(pos.Filename), pos.Line))
			}
		}
	}
	// roles and their roots
	roots := map[string][]string{
		"api":    {"Server.Start", "Server.Stop", "Server.Restart"},
		"query":  {"ConnManager.Conns", "ConnManager.ConnByUUID"}, // registry queries: any goroutine, any time
		"accept": {"Server.serve", "Server.tlsServe"},
		"conn":   {},
	}
	for _, r := range roots["accept"] {
		if f := funcs[r]; f != nil {
			roots["conn"] = append(roots["conn"], f.spawns...)
		}
	}
	// entry locksets per (role, function): intersection over all call paths (nil = not reached yet)
	type rowT struct {
		loc, role string
		write     bool
		locks     lockset
		own       bool
		where     string
	}
	var rows []rowT
	for _, role := range []string{"api", "query", "accept", "conn"} {
		entry := map[string]lockset{}
		var queue []string
		for _, r := range roots[role] {
			if funcs[r] != nil {
				entry[r] = lockset{}
				queue = append(queue, r)
			}
		}
		for len(queue) > 0 {
			name := queue[0]
			queue = queue[1:]
			f := funcs[name]
			if f == nil {
				continue
			}
			for _, c := range f.calls {
				if funcs[c.callee] == nil {
					continue
				}
				in := union(entry[name], c.held)
				old, seen := entry[c.callee]
				var nw lockset
				if !seen {
					nw = in
				} else {
					nw = intersect(old, in)
				}
				if !seen || nw.String() != old.String() {
					entry[c.callee] = nw
					queue = append(queue, c.callee)
				}
			}
		}
		names := []string{}
		for n := range entry {
			names = append(names, n)
		}
		sort.Strings(names)
		for _, n := range names {
			for _, a := range funcs[n].accesses {
				own := role == "conn" && strings.HasPrefix(a.loc, "Conn.")
				rows = append(rows, rowT{a.loc, role, a.write, union(entry[n], a.held), own, fmt.Sprintf("%s (%s:%d)", n, shortPath(a.pos.Filename), a.pos.Line)})
			}
		}
	}
	// process-wide state: package-level variables of every package of the module that some function writes at run time.  Such a
	// variable is shared by the connection goroutines of EVERY Server of the process, so no lock that lives in a Server (or any
	// other object) orders the accesses: only package-level locks count for these rows.
	for _, g := range globalRows(dir) {
		rows = append(rows, rowT{g.loc, "conn", g.write, g.held, false, g.where})
	}
	// numbering
	locIdx, lockIdx := map[string]int{}, map[string]int{}
	var locs, locks []string
	for _, r := range rows {
		if _, ok := locIdx[r.loc]; !ok {
			locIdx[r.loc] = len(locs)
			locs = append(locs, r.loc)
		}
		ks := []string{}
		for k := range r.locks {
			ks = append(ks, k)
		}
		sort.Strings(ks)
		for _, k := range ks {
			if _, ok := lockIdx[k]; !ok {
				lockIdx[k] = len(locks)
				locks = append(locks, k)
			}
		}
	}
	roleC := map[string]string{"api": "RApi", "accept": "RAccept", "conn": "RConn", "query": "RQuery"}
	write := func(path, title, tname string, keep func(rowT) bool) {
		var sb strings.Builder
		sb.WriteString("(* " + title + " - GENERATED by /verif/lockset from the Go source on every C14 / C16 run; do not edit.\n")
		sb.WriteString("   locations:\n")
		for i, l := range locs {
			fmt.Fprintf(&sb, "     %d = %s\n", i, l)
		}
		sb.WriteString("   locks:\n")
		for i, l := range locks {
			fmt.Fprintf(&sb, "     %d = %s\n", i, l)
		}
		sb.WriteString("*)\nFrom Coq Require Import List Bool.\nImport ListNotations.\nFrom GR Require Import Lockset.\n\nDefinition " + tname + " : list row := [\n")
		var sel []rowT
		for _, r := range rows {
			if keep(r) {
				sel = append(sel, r)
			}
		}
		for i, r := range sel {
			ks := []string{}
			for k := range r.locks {
				ks = append(ks, k)
			}
			sort.Strings(ks)
			ls := []string{}
			for _, k := range ks {
				ls = append(ls, fmt.Sprintf("(%d, %v)", lockIdx[k], r.locks[k]))
			}
			sep := ";"
			if i == len(sel)-1 {
				sep = ""
			}
			fmt.Fprintf(&sb, "  {| r_loc := %d; r_role := %s; r_wr := %v; r_locks := [%s]; r_own := %v |}%s  (* %s %s %s in %s *)\n",
				locIdx[r.loc], roleC[r.role], r.write, strings.Join(ls, "; "), r.own, sep, r.loc, map[bool]string{true: "write", false: "read"}[r.write], r.locks.String(), r.where)
		}
		sb.WriteString("].\n\nTheorem " + tname + "_ok : check " + tname + " = true.\nProof. vm_compute. reflexivity. Qed.\n")
		if tname == "table" {
			sb.WriteString("\n(* sync.WaitGroup.Add calls that are executed INSIDE a function started with `go` (source lines); the discipline wants none *)\n")
			sb.WriteString("Definition wg_add_in_spawned : list nat := [")
			for i, m := range wgMisuse {
				if i > 0 {
					sb.WriteString("; ")
				}
				line := m[strings.LastIndex(m, ":")+1 : len(m)-1]
				sb.WriteString(line)
			}
			sb.WriteString("].\n")
			for _, m := range wgMisuse {
				sb.WriteString("(* " + m + " *)\n")
			}
			sb.WriteString("Theorem wg_discipline_ok : wg_add_in_spawned = [].\nProof. reflexivity. Qed.\n")
		}
		if err := os.WriteFile(path, []byte(sb.String()), 0o644); err != nil {
			fmt.Fprintln(os.Stderr, err)
			os.Exit(2)
		}
	}
	// framework state (C14) and calls into the application's handler (C16) are separate obligations
	write(outPath, "Access.v", "table", func(r rowT) bool { return r.loc != "handler-state" })
	write(strings.TrimSuffix(outPath, "Access.v")+"HandlerAccess.v", "HandlerAccess.v", "handler_table", func(r rowT) bool { return r.loc == "handler-state" })
	// a machine-readable copy for the driver (diagnostics, pair search)
	for _, m := range wgMisuse {
		fmt.Printf("WGMISUSE\t%s\n", m)
	}
	for _, r := range rows {
		fmt.Printf("%s\t%s\t%v\t%s\t%v\t%s\n", r.loc, r.role, r.write, r.locks.String(), r.own, r.where)
	}
}

type globalRow struct {
	loc   string
	write bool
	held  lockset
	where string
}

func isPkgLevel(v *types.Var) bool {
	return v != nil && !v.IsField() && v.Pkg() != nil && v.Parent() == v.Pkg().Scope()
}

// hasMutex: t is a sync.Mutex / sync.RWMutex or a struct that embeds / contains one as a direct field
func hasMutex(t types.Type) bool {
	if p, ok := t.(*types.Pointer); ok {
		t = p.Elem()
	}
	switch t.String() {
	case "sync.Mutex", "sync.RWMutex":
		return true
	}
	if st, ok := t.Underlying().(*types.Struct); ok {
		for i := 0; i < st.NumFields(); i++ {
			switch st.Field(i).Type().String() {
			case "sync.Mutex", "sync.RWMutex", "*sync.Mutex", "*sync.RWMutex":
				return true
			}
		}
	}
	return false
}

// rootVar: the package-level variable an expression is rooted at (v, v.f, v[i], (*v).f, pkg.V ...), or nil
func rootVar(info *types.Info, e ast.Expr) *types.Var {
	for {
		switch v := e.(type) {
		case *ast.ParenExpr:
			e = v.X
		case *ast.IndexExpr:
			e = v.X
		case *ast.SliceExpr:
			e = v.X
		case *ast.StarExpr:
			e = v.X
		case *ast.SelectorExpr:
			if obj, ok := info.Uses[v.Sel].(*types.Var); ok && isPkgLevel(obj) {
				return obj // pkg.V
			}
			e = v.X
		case *ast.Ident:
			if obj, ok := info.Uses[v].(*types.Var); ok && isPkgLevel(obj) {
				return obj
			}
			return nil
		default:
			return nil
		}
	}
}

func globalRows(dir string) []globalRow {
	cfg := &packages.Config{Mode: packages.NeedName | packages.NeedFiles | packages.NeedSyntax | packages.NeedTypes | packages.NeedTypesInfo | packages.NeedImports | packages.NeedDeps,
		Dir: dir, Env: append(os.Environ(), "GOFLAGS=-mod=mod", "GOPROXY=off", "GOSUMDB=off")}
	pkgs, err := packages.Load(cfg, "./redis/...", "./examples/...")
	if err != nil || packages.PrintErrors(pkgs) > 0 {
		fmt.Fprintln(os.Stderr, "load (all packages) failed:", err)
		os.Exit(2)
	}
	mine := map[string]bool{}
	for _, p := range pkgs {
		mine[p.PkgPath] = true
	}
	type acc struct {
		v     *types.Var
		write bool
		held  lockset
		where string
	}
	var all []acc
	written := map[*types.Var]bool{}
	for _, p := range pkgs {
		if strings.HasSuffix(p.PkgPath, "test") && strings.Contains(p.PkgPath, "redistest") {
			continue // the test-support package is not part of a running server
		}
		info := p.TypesInfo
		for _, file := range p.Syntax {
			fname := p.Fset.Position(file.Pos()).Filename
			base := fname
			if i := strings.LastIndex(base, "/"); i >= 0 {
				base = base[i+1:]
			}
			if strings.HasSuffix(base, "_test.go") || strings.HasPrefix(base, "verif_") {
				continue
			}
			for _, d := range file.Decls {
				fd, ok := d.(*ast.FuncDecl)
				if !ok || fd.Body == nil || (fd.Recv == nil && fd.Name.Name == "init") {
					continue
				}
				held := lockset{}
				lhs := map[ast.Node]bool{}
				name := fd.Name.Name
				where := func(n ast.Node) string {
					pos := p.Fset.Position(n.Pos())
					return fmt.Sprintf("%s.%s (%s:%d)", p.Name, name, shortPath(pos.Filename), pos.Line)
				}
				rec := func(v *types.Var, write bool, n ast.Node) {
					if v == nil || !mine[v.Pkg().Path()] || isSyncType(v.Type()) {
						return
					}
					if hasMutex(v.Type()) {
						// a struct variable that carries its own lock: its lock is taken through it, that use is not a data access
						if _, isCall := n.(*ast.CallExpr); isCall {
							return
						}
					}
					all = append(all, acc{v, write, held.copy(), where(n)})
					if write {
						written[v] = true
					}
				}
				ast.Inspect(fd.Body, func(n ast.Node) bool {
					switch v := n.(type) {
					case *ast.DeferStmt:
						if sel, ok := v.Call.Fun.(*ast.SelectorExpr); ok && (sel.Sel.Name == "Unlock" || sel.Sel.Name == "RUnlock") {
							if rv := rootVar(info, sel.X); rv != nil && (hasMutex(rv.Type()) || isSyncType(rv.Type())) {
								return false // stays held to the end of the function
							}
						}
					case *ast.CallExpr:
						if sel, ok := v.Fun.(*ast.SelectorExpr); ok {
							if rv := rootVar(info, sel.X); rv != nil && mine[rv.Pkg().Path()] && (hasMutex(rv.Type()) || isSyncType(rv.Type())) {
								key := "global:" + rv.Pkg().Name() + "." + types.ExprString(sel.X)
								switch sel.Sel.Name {
								case "Lock":
									held[key] = true
									lhs[sel.X] = true
									return true
								case "RLock":
									if !held[key] {
										held[key] = false
									}
									lhs[sel.X] = true
									return true
								case "Unlock", "RUnlock":
									delete(held, key)
									lhs[sel.X] = true
									return true
								}
							}
						}
						if id, ok := v.Fun.(*ast.Ident); ok && id.Name == "delete" && len(v.Args) > 0 {
							rec(rootVar(info, v.Args[0]), true, v.Args[0])
						}
					case *ast.AssignStmt:
						for _, l := range v.Lhs {
							if rv := rootVar(info, l); rv != nil {
								rec(rv, true, l)
								lhs[l] = true
							}
						}
					case *ast.IncDecStmt:
						if rv := rootVar(info, v.X); rv != nil {
							rec(rv, true, v.X)
							lhs[v.X] = true
						}
					case *ast.UnaryExpr:
						if v.Op == token.AND {
							// &v escapes: whoever gets the pointer may write through it
							if rv := rootVar(info, v.X); rv != nil && !isSyncType(rv.Type()) && !hasMutex(rv.Type()) {
								rec(rv, true, v.X)
								lhs[v.X] = true
							}
						}
					case *ast.Ident:
						if obj, ok := info.Uses[v].(*types.Var); ok && isPkgLevel(obj) {
							rec(obj, false, v)
						}
					}
					return true
				})
			}
		}
	}
	var out []globalRow
	for _, a := range all {
		if !written[a.v] {
			continue // never written after initialisation: read-only data
		}
		out = append(out, globalRow{"global:" + a.v.Pkg().Name() + "." + a.v.Name(), a.write, a.held, a.where})
	}
	return out
}

func shortPath(p string) string {
	if i := strings.Index(p, "/redis/"); i >= 0 {
		return p[i+1:]
	}
	return p
}
