(* util.ml — glue between the extracted model (Coq datatypes) and text lines. Hand-written, untrusted
   beyond "prints what the model computed". *)
open Model
type string = String.t

let rec pos_of_int (i : int) : positive =
  if i = 1 then XH else if i land 1 = 0 then XO (pos_of_int (i lsr 1)) else XI (pos_of_int (i lsr 1))
let n_of_int (i : int) : n = if i = 0 then N0 else Npos (pos_of_int i)
let rec int_of_pos = function XH -> 1 | XO p -> 2 * int_of_pos p | XI p -> 2 * int_of_pos p + 1
let int_of_n = function N0 -> 0 | Npos p -> int_of_pos p
let rec nat_of_int i = if i <= 0 then O else S (nat_of_int (i - 1))
let rec int_of_nat = function O -> 0 | S n -> 1 + int_of_nat n

(* Z <-> decimal string (arbitrary size) through the model's own itoa/atoi is not possible for
   out-of-range numbers, so Z is printed with a small bignum-free routine over positives. *)
let z_of_int (i : int) : z = if i = 0 then Z0 else if i > 0 then Zpos (pos_of_int i) else Zneg (pos_of_int (- i))

(* decimal printing of a positive of any size: repeated division by 10 on a little-endian bit list *)
let rec bits_of_pos = function XH -> [1] | XO p -> 0 :: bits_of_pos p | XI p -> 1 :: bits_of_pos p
let string_of_pos (p : positive) : string =
  (* digits little endian in base 10; multiply-add over bits from most significant *)
  let bits = List.rev (bits_of_pos p) in
  let digs = ref [0] in
  List.iter (fun b ->
    let carry = ref b in
    digs := List.map (fun d -> let v = 2 * d + !carry in carry := v / 10; v mod 10) !digs;
    if !carry > 0 then digs := !digs @ [!carry]) bits;
  String.concat "" (List.rev_map string_of_int !digs)
let string_of_z = function Z0 -> "0" | Zpos p -> string_of_pos p | Zneg p -> "-" ^ string_of_pos p

let z_of_string (s : string) : z =
  (* decimal -> Z, any size *)
  let neg = String.length s > 0 && s.[0] = '-' in
  let s = if neg || (String.length s > 0 && s.[0] = '+') then String.sub s 1 (String.length s - 1) else s in
  (* build positive via repeated *10 + d using Model's Z arithmetic *)
  let ten = z_of_int 10 in
  let acc = ref Z0 in
  String.iter (fun c -> acc := Z.add (Z.mul !acc ten) (z_of_int (Char.code c - 48))) s;
  if neg then Z.opp !acc else !acc

let bytes_of_string (s : string) : n list = List.init (String.length s) (fun i -> n_of_int (Char.code s.[i]))
let string_of_bytes (b : n list) : string =
  let buf = Buffer.create 16 in List.iter (fun x -> Buffer.add_char buf (Char.chr (int_of_n x land 255))) b; Buffer.contents buf

let hex_of_string (s : string) : string =
  let buf = Buffer.create (2 * String.length s) in
  String.iter (fun c -> Buffer.add_string buf (Printf.sprintf "%02x" (Char.code c))) s; Buffer.contents buf
let string_of_hex (h : string) : string =
  let n = String.length h / 2 in
  String.init n (fun i -> Char.chr (int_of_string ("0x" ^ String.sub h (2 * i) 2)))
let hex_of_bytes b = let s = hex_of_string (string_of_bytes b) in if s = "" then "-" else s
let bytes_of_hex h = if h = "-" then [] else bytes_of_string (string_of_hex h)

let split_ws (s : string) : string list = List.filter (fun x -> x <> "") (String.split_on_char ' ' s)

let iter_lines (f : string -> unit) : unit =
  try while true do f (input_line stdin) done with End_of_file -> ()

(* all strings over alphabet of length 0..maxlen, in length-then-lexicographic order *)
let enum_strings (alpha : int list) (maxlen : int) : n list list =
  let rec go len = if len = 0 then [[]] else
    List.concat_map (fun s -> List.map (fun a -> s @ [n_of_int a]) alpha) (go (len - 1)) in
  List.concat (List.init (maxlen + 1) go)
