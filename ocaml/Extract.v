(* Extraction of the executable model for the correspondence runs.
   ExtrOcamlBasic only (bool, option, unit, list, prod, sumbool, sumor -> OCaml's own); N, Z, positive, nat
   stay Coq datatypes.  No Extract Constant. *)
From Coq Require Import Extraction ExtrOcamlBasic.
From GR Require Import Base Glob Resp Handler Exec Conn Multi Redis Store Linear Lifecycle LifecycleThms.
Extraction "model.ml" Glob.glob_match Glob.regexp_from_glob Glob.re_parse Glob.re_match
  Base.itoa Base.atoi Resp.encode Resp.parse Resp.parse_rd Resp.parse_all Resp.wf
  Handler.hcall_name Handler.hcall_key Handler.parse_float Conn.serve Conn.trace Conn.step Multi.msys_init Multi.mrun Multi.mstep Redis.prim Store.sprim_store Linear.lin Linear.seq_exec LifecycleThms.life_model.
