(* m_conn.ml — modelrun mode `conn`: the connection-loop model on the cases the Go harness ran *)
open Model
type string = String.t
open Util
open M_codec

let b01 b = if b then "1" else "0"
let hxs l = "[" ^ String.concat "," (List.map hex_of_bytes l) ^ "]"

let string_of_positive p = string_of_pos p
let fl_text = function
  | FInf neg -> if neg then "-inf" else "+inf"
  | FNum q -> string_of_z q.qnum ^ "/" ^ string_of_positive q.qden

let zropt o =
  Printf.sprintf "byscore=%s,bylex=%s,rev=%s,withscores=%s,minex=%s,maxex=%s,offset=%s,count=%s"
    (b01 o.zr_byscore) (b01 o.zr_bylex) (b01 o.zr_rev) (b01 o.zr_withscores) (b01 o.zr_minex) (b01 o.zr_maxex)
    (string_of_z o.zr_offset) (string_of_z o.zr_count)

let optz = function None -> "-" | Some z -> string_of_z z

let call_text (c : hcall) : string =
  let h = hex_of_bytes in
  match c with
  | HDel ks -> "Del(" ^ hxs ks ^ ")"
  | HExists ks -> "Exists(" ^ hxs ks ^ ")"
  | HExpire (k, o) ->
    let t = (match o.ex_time with ExpRel s -> "rel=" ^ string_of_z s | ExpAbs s -> "abs=" ^ string_of_z s) in
    Printf.sprintf "Expire(%s,%s,nx=%s,xx=%s,gt=%s,lt=%s)" (h k) t (b01 o.ex_nx) (b01 o.ex_xx) (b01 o.ex_gt) (b01 o.ex_lt)
  | HKeys p -> "Keys(" ^ h p ^ ")"
  | HRename (k, n, nx) -> Printf.sprintf "Rename(%s,%s,nx=%s)" (h k) (h n) (b01 nx)
  | HType k -> "Type(" ^ h k ^ ")"
  | HTTL k -> "TTL(" ^ h k ^ ")"
  | HScan (cur, o) -> Printf.sprintf "Scan(%s,match=%s,count=%s,type=%s)" (string_of_z cur) (h o.sc_match) (string_of_z o.sc_count) (string_of_z o.sc_type)
  | HSet (k, v, o) ->
    Printf.sprintf "Set(%s,%s,ex=%s,px=%s,exat=%s,pxat=%s,nx=%s,xx=%s,keepttl=%s,get=%s)" (h k) (h v)
      (string_of_z o.so_ex) (string_of_z o.so_px) (optz o.so_exat) (optz o.so_pxat) (b01 o.so_nx) (b01 o.so_xx) (b01 o.so_keepttl) (b01 o.so_get)
  | HGet k -> "Get(" ^ h k ^ ")"
  | HHDel (k, f) -> "HDel(" ^ h k ^ "," ^ hxs f ^ ")"
  | HHSet (k, f, v, nx) -> Printf.sprintf "HSet(%s,%s,%s,nx=%s)" (h k) (h f) (h v) (b01 nx)
  | HHGet (k, f) -> "HGet(" ^ h k ^ "," ^ h f ^ ")"
  | HHGetAll k -> "HGetAll(" ^ h k ^ ")"
  | HLPush (k, e, x) -> "LPush(" ^ h k ^ "," ^ hxs e ^ ",x=" ^ b01 x ^ ")"
  | HRPush (k, e, x) -> "RPush(" ^ h k ^ "," ^ hxs e ^ ",x=" ^ b01 x ^ ")"
  | HLPop (k, n) -> Printf.sprintf "LPop(%s,%s)" (h k) (string_of_z n)
  | HRPop (k, n) -> Printf.sprintf "RPop(%s,%s)" (h k) (string_of_z n)
  | HLRange (k, s, e) -> Printf.sprintf "LRange(%s,%s,%s)" (h k) (string_of_z s) (string_of_z e)
  | HLIndex (k, i) -> Printf.sprintf "LIndex(%s,%s)" (h k) (string_of_z i)
  | HLLen k -> "LLen(" ^ h k ^ ")"
  | HSAdd (k, m) -> "SAdd(" ^ h k ^ "," ^ hxs m ^ ")"
  | HSMembers k -> "SMembers(" ^ h k ^ ")"
  | HSRem (k, m) -> "SRem(" ^ h k ^ "," ^ hxs m ^ ")"
  | HZAdd (k, ms, o) ->
    Printf.sprintf "ZAdd(%s,[%s],xx=%s,nx=%s,lt=%s,gt=%s,ch=%s,incr=%s)" (h k)
      (String.concat "," (List.map (fun (s, m) -> fl_text s ^ ":" ^ h m) ms))
      (b01 o.za_xx) (b01 o.za_nx) (b01 o.za_lt) (b01 o.za_gt) (b01 o.za_ch) (b01 o.za_incr)
  | HZRange (k, s, e, o) -> Printf.sprintf "ZRange(%s,%s,%s,%s)" (h k) (string_of_z s) (string_of_z e) (zropt o)
  | HZRangeByScore (k, mn, mx, o) -> Printf.sprintf "ZRangeByScore(%s,%s,%s,%s)" (h k) (fl_text mn) (fl_text mx) (zropt o)
  | HZRem (k, m) -> "ZRem(" ^ h k ^ "," ^ hxs m ^ ")"
  | HZScore (k, m) -> "ZScore(" ^ h k ^ "," ^ h m ^ ")"
  | HZIncBy (k, inc, m) -> Printf.sprintf "ZIncBy(%s,%s,%s)" (h k) (fl_text inc) (h m)

let ev_text (e : ev) : string =
  match e with
  | EvRootStart -> "RS" | EvRootFinish -> "RF"
  | EvSpanStart n -> "SS:" ^ hex_of_bytes n | EvSpanFinish -> "SF"
  | EvCall (db, auth, c, _) -> Printf.sprintf "C:%s:%s:%s" (string_of_z db) (b01 auth) (call_text c)
  | EvApp (n, _) -> "APP:" ^ hex_of_bytes n
  | EvWrite b -> "W:" ^ hex_of_bytes b
  | EvRegister -> "REG" | EvDeregister -> "DEREG" | EvClose -> "CLOSE"

let parse_hres (s : string) : hresult =
  match s.[0] with
  | 'n' -> { hr_msg = None; hr_err = None }
  | 'q' -> { hr_msg = Some (RStatus (bytes_of_string "OK")); hr_err = Some HEQuit }
  | 'e' -> { hr_msg = None; hr_err = Some (HEText (bytes_of_hex (String.sub s 1 (String.length s - 1)))) }
  | 'm' -> { hr_msg = Some (fst (parse_tree (String.sub s 1 (String.length s - 1)) 0)); hr_err = None }
  | 'b' -> let i = String.rindex s '|' in
    { hr_msg = Some (fst (parse_tree (String.sub s 1 (i - 1)) 0));
      hr_err = Some (HEText (bytes_of_hex (String.sub s (i + 1) (String.length s - i - 1)))) }
  | _ -> failwith ("bad hres " ^ s)

type ccase = { pw : n list option; app : n list list; tbl : (string * hresult) list; def : hresult; conns : int;
               steps : (int * string) list; example : bool; tls : string list; rule : n list option }

let parse_case (line : string) : ccase =
  let c = ref { pw = None; app = []; tbl = []; def = parse_hres "ms(4f4b)"; conns = 1; steps = []; example = false; tls = []; rule = None } in
  List.iter (fun f ->
    match String.index_opt f '=' with
    | None -> ()
    | Some i ->
      let k = String.sub f 0 i and v = String.sub f (i + 1) (String.length f - i - 1) in
      (match k with
       | "pw" -> if v <> "-" then c := { !c with pw = Some (bytes_of_hex (String.sub v 1 (String.length v - 1))) }
       | "app" -> if v <> "-" then c := { !c with app = List.map (fun a -> upper (bytes_of_hex a)) (String.split_on_char ',' v) }
       | "tbl" -> if v <> "-" then
           c := { !c with tbl = List.map (fun e -> let j = String.index e '=' in
                                           (String.sub e 0 j, parse_hres (String.sub e (j + 1) (String.length e - j - 1))))
                              (String.split_on_char ';' v) }
       | "def" -> c := { !c with def = parse_hres v }
       | "tls" -> c := { !c with tls = String.split_on_char ',' v }
       | "rule" -> if v <> "-" then c := { !c with rule = Some (bytes_of_hex v) }
       | "conns" -> c := { !c with conns = int_of_string v }
       | "handler" -> c := { !c with example = (v = "example") }
       | "steps" -> if v <> "-" then
           c := { !c with steps = List.map (fun s -> let j = String.index s ':' in
                                             (int_of_string (String.sub s 0 j), String.sub s (j + 1) (String.length s - j - 1)))
                                (String.split_on_char ';' v) }
       | _ -> ())) (split_ws line);
  !c

let regexp_src = regexp_from_glob
let fw_text _ _ = bytes_of_string "ERR"

let run_case_with : 'h. ('h -> z -> hcall -> 'h * hresult) -> 'h -> ccase -> string = fun handle hs0 c ->
  let ss = { ss_config = (match c.pw with Some p -> [(bytes_of_string "requirepass", p)] | None -> []);
             ss_auths = (match c.pw with Some p -> [AClear ([], p)] | None -> []) @ (match c.rule with Some cn -> [ACert cn] | None -> []);
             ss_app = c.app } in
  if c.conns = 1 then begin
    (* single connection: the whole byte stream through the receive loop model *)
    let input = List.concat (List.filter_map (fun (_, op) ->
      if op.[0] = 'f' || op.[0] = 'g' || op.[0] = 'E' then Some (bytes_of_hex (String.sub op 1 (String.length op - 1))) else None) c.steps) in
    (* the TLS state the connection is served with: None = plain; Some chain = common names of the verified chain, leaf first *)
    let tls = (match c.tls with
      | spec :: _ when spec <> "" && spec <> "p" ->
        if spec.[0] = 'c' then Some [bytes_of_hex (String.sub spec 1 (String.length spec - 1))] else Some []
      | _ -> None) in
    let r = serve handle regexp_src fw_text ss hs0 tls input in
    let ending = (match fst r with EndEOS -> "ret" | EndProtoErr -> "ret" | EndQuit -> "ret" | EndPanic -> "PANIC(model)" | EndFuel -> "FUEL") in
    Printf.sprintf "conn0=%s|%s;;final=0" ending (String.concat "~" (List.map ev_text (trace r)))
  end else begin
    (* several connections: request-level interleaving.  Bytes are buffered per connection; at a wait point ('f')
       every value that is certainly complete (parsing it is stable under extension of the stream) becomes a request;
       what remains is parsed when the connection ends. *)
    let bufs = Array.make c.conns [] in
    let ended = Array.make c.conns false in
    let x = n_of_int 88 in
    let rec drain i acc =
      (match parse (bufs.(i) @ [x]) with
       | (PValue v, rest) when rest <> [] ->
         bufs.(i) <- List.rev (List.tl (List.rev rest));
         drain i (MReq (nat_of_int i, v) :: acc)
       | _ -> List.rev acc) in
    let rec finish i acc =
      (match parse bufs.(i) with
       | (PValue v, rest) -> bufs.(i) <- rest; finish i (MReq (nat_of_int i, v) :: acc)
       | _ -> bufs.(i) <- []; List.rev (MEnd (nat_of_int i) :: acc)) in
    let ops = List.concat_map (fun (i, op) ->
      if ended.(i) then [] else
      match op.[0] with
      | 'f' -> bufs.(i) <- bufs.(i) @ bytes_of_hex (String.sub op 1 (String.length op - 1)); drain i []
      | 'g' -> bufs.(i) <- bufs.(i) @ bytes_of_hex (String.sub op 1 (String.length op - 1)); []
      | 'E' -> bufs.(i) <- bufs.(i) @ bytes_of_hex (String.sub op 1 (String.length op - 1)); ended.(i) <- true; finish i []
      | 'e' | 'r' | 'x' -> ended.(i) <- true; finish i []
      | _ -> []) c.steps in
    let ops = ops @ List.concat (List.init c.conns (fun i -> if ended.(i) then [] else finish i [])) in
    let ops = ops @ List.init c.conns (fun i -> MEnd (nat_of_int i)) in
    let m = mrun handle regexp_src fw_text (msys_init ss hs0 (nat_of_int c.conns)) ops in
    let parts = List.mapi (fun i mc ->
      Printf.sprintf "conn%d=%s|%s" i (if m.ms_panic then "PANIC(model)" else "ret")
        (String.concat "~" (List.map ev_text (List.rev mc.mc_evs)))) m.ms_conns in
    String.concat ";;" parts ^ ";;final=0"
  end

let run_case (c : ccase) : string =
  if c.example then run_case_with sprim_store [] c      (* Store.sprim_store: the model of the bundled example store (= Redis.prim on typed calls: StoreFacts) *)
  else begin
    let handle (hs : unit) (_db : z) (call : hcall) : unit * hresult =
      let key = string_of_bytes (hcall_name call) ^ ":" ^ hex_of_bytes (hcall_key call) in
      ((), (match List.assoc_opt key c.tbl with Some r -> r | None -> c.def)) in
    run_case_with handle () c
  end

let mode_conn _args =
  let idx = ref 0 in
  iter_lines (fun line ->
    if String.trim line <> "" then begin
      Printf.printf "%d %s\n" !idx (run_case (parse_case line)); incr idx
    end)
