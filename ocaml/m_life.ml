(* m_life.ml — modelrun mode `life`: the lifecycle model's prediction for a sequence of API calls and client arrivals.
   input: "<plain|tls|both> <ops>" with ops over S X R c t d ; output: <idx> <step>,<step>,... in the harness's notation *)
open Model
type string = String.t
open Util

let mode_life _args =
  let idx = ref 0 in
  iter_lines (fun line ->
    match split_ws line with
    | [cfg; seq] ->
      let p = (cfg = "plain" || cfg = "both") and t = (cfg = "tls" || cfg = "both") in
      let ops = List.filter_map (fun ch -> match ch with
        | 'S' -> Some OStart | 'X' -> Some OStop | 'R' -> Some ORestart | 'c' -> Some OPlain | 't' -> Some OTLS | 'd' -> Some ODisc | 'j' -> Some OReject | 'h' -> Some OHsFail | _ -> None)
        (List.init (String.length seq) (String.get seq)) in
      let chars = List.filter (fun ch -> String.contains "SXRctdjh" ch) (List.init (String.length seq) (String.get seq)) in
      let obs = life_model p t ops in
      let txt = List.map2 (fun ch o -> match o with
        | ObsRet b -> Printf.sprintf "%c:%s" ch (if b then "true" else "false")
        | ObsReg n -> Printf.sprintf "%c:%d" ch (int_of_nat n)
        | ObsSkip -> Printf.sprintf "%c:skip" ch) chars obs in
      Printf.printf "%d %s\n" !idx (String.concat "," txt); incr idx
    | _ -> ())
