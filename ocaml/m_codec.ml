(* m_codec.ml — modelrun modes for C01 C02 C06: parse / encode / ctor *)
open Model
type string = String.t
open Util

let rec tree_of (v : resp) : string =
  match v with
  | RStatus s -> "s(" ^ hex_of_bytes s ^ ")"
  | RError s -> "e(" ^ hex_of_bytes s ^ ")"
  | RInt s -> "i(" ^ hex_of_bytes s ^ ")"
  | RBulk None -> "n"
  | RBulk (Some p) -> "b(" ^ hex_of_bytes p ^ ")"
  | RArr l -> "a[" ^ String.concat "," (List.map tree_of l) ^ "]"

(* returns (value, rest-of-string) *)
let rec parse_tree (s : string) (i : int) : resp * int =
  match s.[i] with
  | 'n' -> (RBulk None, i + 1)
  | 'N' -> (RArr [], i + 1)      (* an array message whose array was never set: serialised as the empty array *)
  | 'u' ->                       (* a message of none of the five types (type value < 128): at top level the server answers with the serializer's error text *)
    let j = String.index_from s i ')' in
    let tb = bytes_of_hex (String.sub s (i + 2) (j - i - 2)) in
    (RError (bytes_of_string "unknown message type (" @ tb @ bytes_of_string ")"), j + 1)
  | ('s' | 'e' | 'i' | 'b') as c ->
    let j = String.index_from s i ')' in
    let payload = bytes_of_hex (String.sub s (i + 2) (j - i - 2)) in
    ((match c with 's' -> RStatus payload | 'e' -> RError payload | 'i' -> RInt payload | _ -> RBulk (Some payload)), j + 1)
  | 'a' ->
    let rec elems k acc =
      if s.[k] = ']' then (List.rev acc, k + 1)
      else let (e, k') = parse_tree s k in
        let k'' = if s.[k'] = ',' then k' + 1 else k' in elems k'' (e :: acc) in
    let (l, k) = elems (i + 2) [] in (RArr l, k)
  | _ -> failwith ("bad tree " ^ s)

let chunk (data : n list) (sizes : int list) : n list list =
  let rec take k l = if k = 0 then ([], l) else match l with [] -> ([], []) | x :: r -> let (a, b) = take (k - 1) r in (x :: a, b) in
  let rec go l sizes = match l, sizes with
    | [], _ -> []
    | _, [] -> [l]
    | _, k :: ks -> let (a, b) = take k l in a :: go b ks in
  go data sizes

let rec length_int l = List.length l

(* same output format as harness modeParse *)
let mode_parse _args =
  let idx = ref 0 in
  iter_lines (fun line ->
    match split_ws line with
    | ch :: hexs :: rest ->
      let data = bytes_of_hex hexs in
      let limit = match rest with l :: _ -> int_of_string l | [] -> 64 in
      let total = List.length data in
      let buf = Buffer.create 64 in
      if ch = "-" then begin
        let rec loop s n =
          if n >= limit then Buffer.add_string buf "L" else
          match parse s with
          | (PValue v, s') -> Buffer.add_string buf (Printf.sprintf "V-1:%s;" (tree_of v)); loop s' (n + 1)
          | (PEOS, _) -> Buffer.add_string buf "S"
          | (PErr, _) -> Buffer.add_string buf "E"
          | (PPanic, _) -> Buffer.add_string buf "P(model)"
          | (POutOfFuel, _) -> Buffer.add_string buf "F" in
        loop data 0
      end else begin
        let sizes = List.filter (fun x -> x > 0) (List.map int_of_string (String.split_on_char ',' ch)) in
        let r = chunk data sizes in
        let rec loop r n =
          if n >= limit then Buffer.add_string buf "L" else
          match parse_rd r with
          | (PValue v, r') ->
            let left = List.fold_left (fun a c -> a + List.length c) 0 r' in
            Buffer.add_string buf (Printf.sprintf "V%d:%s;" (total - left) (tree_of v)); loop r' (n + 1)
          | (PEOS, _) -> Buffer.add_string buf "S"
          | (PErr, _) -> Buffer.add_string buf "E"
          | (PPanic, _) -> Buffer.add_string buf "P(model)"
          | (POutOfFuel, _) -> Buffer.add_string buf "F" in
        loop r 0
      end;
      Printf.printf "%d %s\n" !idx (Buffer.contents buf); incr idx
    | _ -> ())

let mode_encode _args =
  let idx = ref 0 in
  iter_lines (fun line ->
    let line = String.trim line in
    if line <> "" then begin
      let (v, _) = parse_tree line 0 in
      let b = encode v in
      let back, reser = match parse b with (PValue w, _) -> tree_of w, (if encode w = b then "1" else "0") | _ -> "E", "0" in
      Printf.printf "%d %s %s %s\n" !idx (hex_of_bytes b) back reser; incr idx
    end)

(* ctor: int -> encode (RInt (itoa z)) and atoi back; str -> the three encodings; strs -> array of bulks *)
let mode_ctor _args =
  let idx = ref 0 in
  iter_lines (fun line ->
    (match split_ws line with
     | "int" :: d :: _ ->
       let z = z_of_string d in
       let b = encode (RInt (itoa z)) in
       let ok = (match parse b with (PValue (RInt s), []) -> (match atoi s with Some z' -> z' = z | None -> false) | _ -> false) in
       Printf.printf "%d %s %b\n" !idx (hex_of_bytes b) ok
     | "str" :: h :: _ ->
       let s = bytes_of_hex h in
       let bs = List.map (fun v -> hex_of_bytes (encode v) ^ ",") [RBulk (Some s); RStatus s; RError s] in
       Printf.printf "%d %s true\n" !idx (String.concat "" bs)
     | "strs" :: h :: _ ->
       let strs = if h = "." then [] else List.map bytes_of_hex (String.split_on_char ',' h) in
       Printf.printf "%d %s true\n" !idx (hex_of_bytes (encode (RArr (List.map (fun s -> RBulk (Some s)) strs))))
     | "misc" :: _ ->
       Printf.printf "%d %s,%s,%s true\n" !idx (hex_of_bytes (encode (RStatus (bytes_of_string "OK"))))
         (hex_of_bytes (encode (RBulk None))) (hex_of_bytes (encode (RArr [])))
     | "float" :: _ -> Printf.printf "%d - true\n" !idx   (* strconv float formatting is not modelled *)
     | _ -> Printf.printf "%d ?\n" !idx);
    incr idx)
