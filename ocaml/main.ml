(* modelrun — evaluates the extracted Coq model on the cases the Go harness ran. One mode per property. *)
open Model
type string = String.t
open Util

(* C17: args: alphabet-hex maxlen ; stdin: one pattern (hex) per line.
   out: <pattern-hex> <regexp-text-hex> <parse-ok 0/1> <bitset of glob_match over enumerated keys> <bitset of re_match> *)
let mode_glob args =
  let alpha = List.map int_of_n (bytes_of_hex (List.nth args 0)) in
  let maxlen = int_of_string (List.nth args 1) in
  let enum_keys = enum_strings alpha maxlen in
  let bitset keys f =
    let buf = Buffer.create 64 in
    let acc = ref 0 and cnt = ref 0 in
    List.iter (fun k -> acc := (!acc lsl 1) lor (if f k then 1 else 0); incr cnt;
                if !cnt = 4 then (Buffer.add_string buf (Printf.sprintf "%x" !acc); acc := 0; cnt := 0)) keys;
    if !cnt > 0 then Buffer.add_string buf (Printf.sprintf "%x" (!acc lsl (4 - !cnt)));
    Buffer.contents buf in
  iter_lines (fun line ->
    let fields = split_ws line in
    let p = bytes_of_hex (List.hd fields) in
    let keys = if List.length fields > 1 then List.map bytes_of_hex (List.tl fields) else enum_keys in
    let bitset = bitset keys in
    let txt = regexp_from_glob p in
    let parsed = re_parse txt in
    let ok, rbits = match parsed with
      | Some r -> 1, bitset (fun k -> re_match r k)
      | None -> 0, "" in
    Printf.printf "%s %s %d %s %s\n" (hex_of_bytes p) (hex_of_bytes txt) ok (bitset (fun k -> glob_match p k)) rbits)

let () =
  match Array.to_list Sys.argv with
  | _ :: "glob" :: args -> mode_glob args
  | _ :: "parse" :: args -> M_codec.mode_parse args
  | _ :: "encode" :: args -> M_codec.mode_encode args
  | _ :: "ctor" :: args -> M_codec.mode_ctor args
  | _ :: "conn" :: args -> M_conn.mode_conn args
  | _ :: "lin" :: args -> M_lin.mode_lin args
  | _ :: "life" :: args -> M_life.mode_life args
  | _ -> prerr_endline "usage: modelrun <mode> [args]"; exit 2
