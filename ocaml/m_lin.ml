(* m_lin.ml — modelrun mode `lin`: judge recorded concurrent histories with the extracted, verified checker Linear.lin.
   input: one history per line:  <req-hex>|<reply-hex>|<inv>|<resp>;...      output: <idx> 1|0 *)
open Model
type string = String.t
open Util

let parse_op (t : string) : op =
  match String.split_on_char '|' t with
  | [rq; rp; i; r] ->
    let req = (match parse (bytes_of_hex rq) with (PValue v, _) -> v | _ -> RArr []) in
    { o_req = req; o_rep = bytes_of_hex rp; o_inv = z_of_string i; o_resp = z_of_string r }
  | _ -> failwith ("bad op " ^ t)

let mode_lin _args =
  let idx = ref 0 in
  iter_lines (fun line ->
    if String.trim line <> "" then begin
      let ops = List.map parse_op (List.filter (fun x -> x <> "") (String.split_on_char ';' (String.trim line))) in
      let ok = lin (nat_of_int (List.length ops + 1)) [] ops in
      Printf.printf "%d %s\n" !idx (if ok then "1" else "0"); incr idx
    end)
