#!/bin/sh
# Build the framework from files on disk only (offline): Coq development (full .vo build), extracted model, Go harness.
set -e
cd "$(dirname "$0")"
export GOFLAGS=-mod=mod GOPROXY=off GOSUMDB=off GOTOOLCHAIN=local
mkdir -p build evidence replays
( cd coq && coq_makefile -f _CoqProject -o Makefile >/dev/null 2>&1 && timeout 3000 make -j16 >build.log 2>&1 || { tail -30 build.log; exit 1; } )
python3 - <<'PY'
import sys, os
sys.path.insert(0, "lib")
import vlib
ok, o = vlib.build_model()
if not ok:
    print(o[-2000:]); sys.exit(1)
ok, o = vlib.build_harness()
if not ok:
    print(o[-2000:]); sys.exit(1)
rc, o, _ = vlib.sh(["go", "build", "-o", os.path.join(vlib.BUILD, "lockset"), "."], cwd=os.path.join(vlib.ROOT, "lockset"), env=vlib.GOENV, timeout=900)
if rc != 0:
    print(o[-2000:]); sys.exit(1)
print("setup ok")
PY
